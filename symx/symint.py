"""Symbolic Python integers for the control-logic harnesses (reading.py, time.py).

An SInt carries an integer-sorted term.  Comparisons are SymBools decided by the solver against
the path condition (forking when both outcomes are feasible), so `sorted`, `set`, `in`, `list.index`,
`min/argmin` work on symbolic iteration numbers of *unbounded* value.  Formatting (`f"it_{int(i)}"`)
yields a canonical token per equality class under the current path condition, so file names built
from symbolic iterations are equal exactly when the iterations are."""
from . import term as tm
from .sym import SymBool, ctx, _is_num


def _term(o):
    if isinstance(o, SInt):
        return o.t
    if isinstance(o, SIntInt):
        return o.s.t
    if isinstance(o, bool):
        return tm.const(int(o))
    if isinstance(o, int):
        return tm.const(o)
    try:
        import numpy as np
        if isinstance(o, np.integer):
            return tm.const(int(o))
    except ImportError:  # pragma: no cover
        pass
    return None


class SInt:
    __slots__ = ('t',)

    def __init__(self, t):
        self.t = t

    @staticmethod
    def var(name):
        return SInt(tm.var(name))

    # arithmetic
    def __add__(self, o):
        b = _term(o)
        return NotImplemented if b is None else SInt(tm.add(self.t, b))

    __radd__ = __add__

    def __sub__(self, o):
        b = _term(o)
        return NotImplemented if b is None else SInt(tm.sub(self.t, b))

    def __rsub__(self, o):
        b = _term(o)
        return NotImplemented if b is None else SInt(tm.sub(b, self.t))

    def __mul__(self, o):
        b = _term(o)
        return NotImplemented if b is None else SInt(tm.mul(self.t, b))

    __rmul__ = __mul__

    def __neg__(self):
        return SInt(tm.neg(self.t))

    def __abs__(self):
        return -self if bool(self < 0) else self

    # comparisons
    def _c(self, o, f):
        b = _term(o)
        if b is None:
            return NotImplemented
        return SymBool(f(self.t, b))

    def __lt__(self, o):
        return self._c(o, tm.lt)

    def __le__(self, o):
        return self._c(o, tm.le)

    def __gt__(self, o):
        return self._c(o, lambda a, b: tm.lt(b, a))

    def __ge__(self, o):
        return self._c(o, lambda a, b: tm.le(b, a))

    def __eq__(self, o):
        b = _term(o)
        if b is None:
            return False
        return bool(SymBool(tm.eq(self.t, b)))      # decided right away: needed by set / dict / in

    def __ne__(self, o):
        return not self.__eq__(o)

    def __hash__(self):
        return 7

    def __int__(self):
        return SIntInt(self)

    __index__ = __int__

    def __format__(self, spec):
        return canonical_token(self)

    def __str__(self):
        return canonical_token(self)

    def __repr__(self):
        return f"SInt(#{self.t.id})"


class SIntInt(int):
    """what int(SInt) returns: an int subclass that still knows its symbolic value"""

    def __new__(cls, s):
        o = int.__new__(cls, 0)
        o.s = s
        return o

    def __format__(self, spec):
        return canonical_token(self.s)

    def __str__(self):
        return canonical_token(self.s)

    __repr__ = __str__

    def __eq__(self, o):
        return self.s == o

    def __hash__(self):
        return 7

    def __lt__(self, o):
        return bool(self.s < o)

    def __le__(self, o):
        return bool(self.s <= o)

    def __gt__(self, o):
        return bool(self.s > o)

    def __ge__(self, o):
        return bool(self.s >= o)

    def __sub__(self, o):
        return self.s - o

    def __rsub__(self, o):
        return o - self.s

    def __add__(self, o):
        return self.s + o

    __radd__ = __add__

    def __abs__(self):
        return abs(self.s)


def canonical_token(s):
    """One token per equality class of symbolic integers under the current path condition."""
    c = ctx()
    reg = getattr(c, 'tokens', None)
    if reg is None:
        reg = c.tokens = []
    for other, tok in reg:
        if other is s.t:
            return tok
    for other, tok in reg:
        if bool(SymBool(tm.eq(s.t, other))):
            reg.append((s.t, tok))
            return tok
    tok = str(int(s.t.val)) if s.t.op == 'c' else f"<n{len(set(t for _, t in reg))}>"
    reg.append((s.t, tok))
    return tok


class _IntMeta(type):
    def __instancecheck__(cls, x):
        return isinstance(x, int)


class sym_int(int, metaclass=_IntMeta):
    """stand-in for the builtin int inside the module under test: identity on symbolic integers,
    the real int otherwise (isinstance(x, int) keeps working)."""

    def __new__(cls, x=0, *a):
        if isinstance(x, SInt):
            return x
        if isinstance(x, SIntInt):
            return x.s
        if type(x).__name__ == 'SymReal':
            return x.__int__().s                 # truncation toward zero as a fresh symbolic integer (see SymReal.__int__)
        return int(x, *a)


# ----------------------------------------------------------------------------------------------------
# Python's set iteration order is unspecified (hash order).  Code under test that iterates over a set
# of iteration numbers must work for EVERY order, so the stand-in forks over all permutations.
class SymSet:
    def __init__(self, items=()):
        self.items = []
        for x in items:
            if not any(x == y for y in self.items):
                self.items.append(x)

    def __len__(self):
        return len(self.items)

    def __contains__(self, x):
        return any(x == y for y in self.items)

    def add(self, x):
        if x not in self:
            self.items.append(x)

    def __iter__(self):
        # hidden "hash order": one arbitrary but fixed relation between the symbolic values per path
        # (decided lazily by forking on fresh booleans, cached in the context), so every set met on a
        # path iterates consistently and all orders are explored across paths
        c = ctx()
        rel = getattr(c, 'hash_before', None)
        if rel is None:
            rel = c.hash_before = {}

        def before(a, b):
            ta, tb = _term(a), _term(b)
            if ta is None or tb is None:
                return False
            key = (ta.id, tb.id)
            if key in rel:
                return rel[key]
            if (tb.id, ta.id) in rel:
                return not rel[(tb.id, ta.id)]
            v = bool(SymBool(tm.cmp0(tm.var(f'__hb_{min(key)}_{max(key)}'), '<')))
            rel[key] = v if ta.id < tb.id else v
            return rel[key]
        out = []
        for x in self.items:                     # insertion sort with the hidden relation
            k = 0
            while k < len(out) and before(out[k], x):
                k += 1
            out.insert(k, x)
        return iter(out)

    def __eq__(self, o):
        if isinstance(o, SymSet):
            return len(self) == len(o) and all(x in o for x in self.items)
        return NotImplemented

    def __repr__(self):
        return f"SymSet({self.items})"


def sym_set(items=()):
    items = list(items.items) if isinstance(items, SymSet) else list(items)
    if any(isinstance(x, (SInt, SIntInt)) for x in items):
        return SymSet(items)
    return set(items)


def sym_sorted(x, **kw):
    """sorted(): sorting a SymSet does not depend on its iteration order, so no permutation fork"""
    if isinstance(x, SymSet):
        return sorted(x.items, **kw)
    return sorted(x, **kw)


def sym_list(x=()):
    return list(x)
