"""C03 - frozen inputs are never evicted; clean-up keeps its bookkeeping consistent.
One inductive step of the real AurelCore.cleanup_cache from an arbitrary valid cache state:
sizes, ages, counters, period, threshold, grid sizes and one importance are symbolic reals; every
comparison in the real code is decided by the solver or forks; all paths are explored."""
import itertools
import multiprocessing as mp
import os
import sys
import time
from fractions import Fraction as F

import numpy as np

from symx import term as tm, solver
from symx.sym import SymReal, SymBool, Ctx, use_ctx, explore, sym, Inconclusive
from symx.harness import FuncTrace, source_digest

PID = 'C03'
FILES = ['src/aurel/core.py', 'src/aurel/utils/memory.py', 'src/aurel/time.py']

KINDS = {
    # kind: (key name template, importance, tracked in last_accessed)
    'frozen-input': ('gxx', 0, True),
    'frozen-input-untracked': ('alpha', 0, False),
    'frozen-custom': ('my_custom_var', 0, True),
    'ordinary': ('Ktrace', 1.0, True),
    'ordinary2': ('gammadet', 1.0, True),
    'low-importance': ('s_Gamma_udd3', 0.002, True),
    'medium-importance': ('s_RicciS', 0.1, True),
    'override': ('Hamiltonian', 'symbolic', True),
}
FROZEN = ('frozen-input', 'frozen-input-untracked', 'frozen-custom')


class Val:
    """placeholder for a cached array"""

    def __init__(self, key):
        self.key = key

    def __repr__(self):
        return f"Val({self.key})"


class Count:
    """calculation_count: supports %, -, formatting; the remainder is an unconstrained value in
    [0, period) so both 'regular clean-up' and 'not' are explored for every state."""

    def __init__(self, c, rem):
        self.c, self.rem = c, rem

    def __mod__(self, period):
        return self.rem

    def __sub__(self, o):
        return self.c - o

    def __format__(self, spec):
        return "<count>"


class SysStub:
    def __init__(self, table):
        self.table = table

    def getsizeof(self, v):
        return self.table[v.key]


def make_state(kinds, tag=''):
    """symbolic state + preconditions for a list of key kinds."""
    from aurel.core import AurelCore
    from aurel.finitedifference import FiniteDifference
    import aurel.core as core
    param = {'xmin': 0.0, 'ymin': 0.0, 'zmin': 0.0, 'dx': 1.0, 'dy': 1.0, 'dz': 1.0, 'Nx': 2, 'Ny': 2, 'Nz': 2}
    fd = FiniteDifference(param, verbose=False)
    rel = AurelCore(fd, verbose=False)
    rel.verbose = True
    rel.myprint = lambda m: None
    count, rem, period, thr = sym('count'), sym('rem'), sym('period'), sym('thr')
    N = [sym('Nx'), sym('Ny'), sym('Nz')]
    pre = [tm.le(tm.ONE, count.t), tm.le(tm.ONE, period.t), tm.lt(tm.ZERO, thr.t),
           tm.le(tm.ZERO, rem.t), tm.lt(rem.t, period.t)] + [tm.le(tm.ONE, n.t) for n in N]
    rel.param = dict(param)
    rel.param.update(Nx=N[0], Ny=N[1], Nz=N[2])
    rel.calculation_count = Count(count, rem)
    rel.clear_cache_every_nbr_calc = period
    rel.memory_threshold_inGB = thr
    size, shallow = {}, {}
    keys = []
    for i, kind in enumerate(kinds):
        name, imp, tracked = KINDS[kind]
        key = name if name not in keys else f"{name}_{i}"
        keys.append(key)
        rel.data[key] = Val(key)
        size[key] = sym(f'size{i}')
        shallow[key] = sym(f'shallow{i}')
        pre += [tm.le(tm.ZERO, size[key].t), tm.le(tm.ZERO, shallow[key].t)]
        if tracked:
            a = sym(f'last{i}')
            rel.last_accessed[key] = a
            pre += [tm.le(tm.ZERO, a.t), tm.le(a.t, count.t)]
        if imp == 'symbolic':
            w = sym(f'imp{i}')
            rel.var_importance[key] = w
            pre += [tm.le(tm.ZERO, w.t)]
        elif kind in FROZEN:
            rel.var_importance[key] = 0
        # other kinds keep the real table value set by AurelCore.__init__

    def get_size(obj):
        if obj is rel.data:
            tot = 0
            for k in rel.data:
                tot = tot + size[k]
            return tot
        if isinstance(obj, Val):
            return size[obj.key]
        raise TypeError(f"get_size stub: unexpected {type(obj)}")
    return rel, pre, get_size, SysStub(shallow), keys


def run_assignment(args):
    """Explore every path of cleanup_cache for one assignment of key kinds.  Runs in a worker
    process; returns a summary dict."""
    kinds, max_paths = args
    import aurel.core as core
    t0 = time.time()
    out = dict(kinds=kinds, paths=0, queries=0, violations=[], inconclusive=None, max_removed=0,
               removed_patterns=set())
    saved = (core.get_size, core.sys)

    def body(c):
        rel, pre, get_size, sysstub, keys = make_state(kinds)
        for p in pre:
            c.pre.append(p)
        core.get_size = get_size
        core.sys = sysstub
        before_data = dict(rel.data)
        before_last = dict(rel.last_accessed)
        try:
            rel.cleanup_cache()
            err = None
        except Inconclusive:
            raise
        except Exception as e:  # noqa
            err = repr(e)
        finally:
            core.get_size, core.sys = saved
        return rel, keys, before_data, before_last, err

    try:
        for c, (rel, keys, before_data, before_last, err) in explore(
                body, pre=[], max_paths=max_paths, backend='inproc', decide_timeout=10):
            out['paths'] += 1
            out['queries'] += c.decision_queries
            out['solver_seconds'] = out.get('solver_seconds', 0.0) + c.decision_seconds
            removed = [k for k in before_data if k not in rel.data]
            out['max_removed'] = max(out['max_removed'], len(removed))
            out['removed_patterns'].add(tuple(removed))
            problems = []
            if err:
                problems.append(f"exception {err}")
            for k, kind in zip(keys, kinds):
                if k in removed:
                    if kind in FROZEN:
                        problems.append(f"frozen key {k} ({kind}) removed")
                    elif kind == 'override':
                        w = rel.var_importance[k]
                        ok = c.valid(tm.lt(tm.ZERO, w.t))
                        if ok is not True:
                            problems.append(f"key {k} removed although its importance may be 0 (frozen)")
                elif rel.data[k] is not before_data[k]:
                    problems.append(f"surviving entry {k} replaced")
            for k in rel.last_accessed:
                if k not in rel.data:
                    problems.append(f"age table mentions evicted key {k}")
            for k in before_last:
                if (k in removed) != (k not in rel.last_accessed):
                    problems.append(f"data / last_accessed lost different keys ({k})")
                if k in rel.last_accessed and rel.last_accessed[k] is not before_last[k]:
                    problems.append(f"age of surviving key {k} changed")
            if problems:
                v, model = c.model()
                out['violations'].append(dict(problems=problems, kinds=kinds,
                                              model={k: str(x) for k, x in model.items() if x is not None},
                                              decisions=list(c.log)))
    except Inconclusive as e:
        out['inconclusive'] = str(e)
    out['seconds'] = round(time.time() - t0, 2)
    out['removed_patterns'] = sorted(map(list, out['removed_patterns']))
    return out


def replay_concrete(kinds, model):
    """Replay a path on the real cleanup_cache with the concrete size table of the model."""
    import aurel.core as core
    saved = (core.get_size, core.sys)
    rel, pre, get_size, sysstub, keys = make_state(kinds)

    def num(x):
        if isinstance(x, SymReal):
            vs = tm.free_vars([x.t])
            env = {v.val: F(model.get(v.val, '0')) for v in vs}
            return tm.evaluate([x.t], env)[0]
        return x
    count = num(rel.calculation_count.c)
    rem = num(rel.calculation_count.rem)
    period = num(rel.clear_cache_every_nbr_calc)

    class CCount(Count):
        def __mod__(self, p):
            return self.rem
    rel.calculation_count = CCount(count, rem)
    rel.clear_cache_every_nbr_calc = period
    rel.memory_threshold_inGB = num(rel.memory_threshold_inGB)
    rel.param = {k: num(v) for k, v in rel.param.items()}
    rel.last_accessed = {k: num(v) for k, v in rel.last_accessed.items()}
    rel.var_importance = {k: num(v) for k, v in rel.var_importance.items()}
    size = {k: num(get_size(rel.data[k])) for k in rel.data}
    sh = {k: num(sysstub.table[k]) for k in rel.data}
    core.get_size = lambda o: sum(size[k] for k in rel.data) if o is rel.data else size[o.key]
    core.sys = SysStub(sh)
    before = dict(rel.data)
    try:
        rel.cleanup_cache()
        err = None
    except Exception as e:  # noqa
        err = repr(e)
    finally:
        core.get_size, core.sys = saved
    removed = [k for k in before if k not in rel.data]
    bad = []
    if err:
        bad.append(err)
    for k, kind in zip(keys, kinds):
        if k in removed and (kind in FROZEN or (kind == 'override' and rel.var_importance[k] == 0)):
            bad.append(f"frozen {k} removed")
    for k in rel.last_accessed:
        if k not in rel.data:
            bad.append(f"age table mentions evicted {k}")
    return dict(removed=removed, problems=bad, reproduces=bool(bad))


def freeze_establishes_invariant(report):
    """freeze_data / load_data / process_single_timestep give importance 0 to every key present
    (executed on placeholders; concrete, reported as such)."""
    from aurel.core import AurelCore
    from aurel.finitedifference import FiniteDifference
    from aurel import time as atime
    param = {'xmin': 0.0, 'ymin': 0.0, 'zmin': 0.0, 'dx': 1.0, 'dy': 1.0, 'dz': 1.0, 'Nx': 6, 'Ny': 6, 'Nz': 6}
    fd = FiniteDifference(param, verbose=False)
    ok = True
    rel = AurelCore(fd, verbose=False)
    rel.data.update(gxx=np.ones((6, 6, 6)), my_custom=np.ones((6, 6, 6)), Kdown3=np.zeros((3, 3, 6, 6, 6)))
    rel.freeze_data()
    ok &= all(rel.var_importance.get(k, 1.0) == 0 for k in rel.data)
    # every key that has an importance weight of its own (whatever its value), and keys with a user override, supplied as inputs
    relw = AurelCore(fd, verbose=False, clear_cache_every_nbr_calc=1)
    weighted = sorted(relw.var_importance)
    for k in weighted:
        relw.data[k] = np.full((6, 6, 6), 3.0)
    relw.data['my_custom'] = np.full((6, 6, 6), 3.0)
    relw.var_importance['my_custom'] = 0.37
    relw.freeze_data()
    left_w = sorted(k for k in relw.data if relw.var_importance.get(k, 1.0) != 0)
    if left_w:
        ok = False
        for k in ('gammadet', 'Ktrace', 'gammaup3', 'betadown3', 'gdet', 'gup4'):
            try:
                relw[k]
            except Exception:  # noqa  (placeholder shapes: some keys cannot be computed - only the evictions matter)
                pass
        gone_w = [k for k in left_w if k not in relw.data or not np.all(np.asarray(relw.data[k]) == 3.0)]
        if gone_w:
            report.violation('freeze-invariant:weighted-inputs', f'freeze_data() leaves inputs {left_w[:6]} (keys with their own importance weight) unfrozen; '
                             f'a few requests later {gone_w[:6]} are evicted or replaced', report.write_replay('freeze-weighted', dict(unfrozen=left_w, evicted=gone_w)))
        else:
            report.notes.append(f'freeze_data leaves {left_w[:6]} unfrozen (reported through the generic freeze-invariant violation below)')
    # __getitem__ keeps the age table in step with the cache for every kind of request, helpers fetched by bracket included
    import inspect
    relg = AurelCore(fd, verbose=False, clear_cache_every_nbr_calc=1)
    relg.data.update(gxx=2.0 * np.ones((6, 6, 6)), kxx=0.5 * np.ones((6, 6, 6)))
    relg.freeze_data()
    helpers_ = [n for n, f_ in inspect.getmembers(type(relg), inspect.isfunction)
                if not n.startswith('_') and len(inspect.signature(f_).parameters) > 1 and n not in ('load_data', 'myprint')]
    stale, raised = None, None
    for k in ['gammadet', 'gxx', 'gammadet'] + helpers_ + ['Ktrace', 'gammaup3', 'betadown3']:
        try:
            relg[k]
        except Exception as e:  # noqa
            raised = (k, repr(e)[:120])
            break
        extra = sorted(set(relg.last_accessed) - set(relg.data))
        if extra and stale is None:
            stale = (k, extra)
    if stale or raised:
        ok = False
        if raised:
            report.violation('age-table:getitem', f"after rel[{stale[0] if stale else '?'}] the age table lists {stale[1] if stale else '?'} which is not cached; "
                             f'the next clean-up raises inside rel[{raised[0]}]: {raised[1]}',
                             report.write_replay('age-table-getitem', dict(stale=stale, raised=raised)))
        else:
            report.harness_errors.append(f'age table lists uncached keys after rel[{stale[0]}]: {stale[1]}, but no later request raised')
    # freeze after some requests were already made (inputs and results are then in the age table): still every key present
    relb = AurelCore(fd, verbose=False, clear_cache_every_nbr_calc=1)
    relb.data.update(gxx=7.0 * np.ones((6, 6, 6)), kxx=0.5 * np.ones((6, 6, 6)), my_custom=np.ones((6, 6, 6)))
    relb['gammadet']
    relb['Ktrace']
    relb['my_custom']
    relb.freeze_data()
    late_ok = all(relb.var_importance.get(k, 1.0) == 0 for k in relb.data)
    if not late_ok:
        left = sorted(k for k in relb.data if relb.var_importance.get(k, 1.0) != 0)
        for k in ('gammaup3', 'betadown3', 'gdet', 'gup4', 'Kup3', 's_RicciS'):
            relb[k]
        gone = [k for k in ('gxx', 'kxx', 'my_custom', 'gammadown3', 'Kdown3') if k not in relb.data]
        wrong = bool(np.any(relb['gammadown3'][0, 0] != 7.0)) or bool(np.any(relb['Kdown3'][0, 0] != 0.5))
        if gone or wrong:
            report.violation('freeze-invariant:after-requests',
                             f'freeze_data() after rel[gammadet], rel[Ktrace], rel[my_custom] leaves {left} unfrozen; six requests later '
                             f'(clean-up every calculation) {gone} are evicted' + (' and gammadown3/Kdown3 fell back to defaults' if wrong else ''),
                             report.write_replay('freeze-after-requests', dict(unfrozen=left, evicted=gone, fell_back=wrong)))
        else:
            report.harness_errors.append(f'freeze_data after requests leaves {left} unfrozen but the real clean-up run shows no eviction')
    rel2 = AurelCore(fd, verbose=False)
    rel2.load_data({'gxx': [np.ones((6, 6, 6))] * 2, 'weird': [np.ones((6, 6, 6))] * 2}, 1)
    ok &= all(rel2.var_importance.get(k, 1.0) == 0 for k in rel2.data)
    captured = {}
    orig = atime.core.AurelCore

    class Spy(orig):
        def __init__(self, *a, **k):
            super().__init__(*a, **k)
            captured['rel'] = self

    def custom(r):
        # the first moment a calculation (and so a clean-up) can happen: every input must already be frozen here
        captured['importance_at_first_request'] = {k: r.var_importance.get(k, 1) for k in r.data}
        return r['gxx'] * 2
    atime.core.AurelCore = Spy
    try:
        d = {'it': 0, 'gxx': np.ones((6, 6, 6)), 'extra_input': np.ones((6, 6, 6))}
        atime.process_single_timestep(d, fd, [{'cust': custom}, 'gammadet'], [], False, None, {})
    finally:
        atime.core.AurelCore = orig
    r3 = captured.get('rel')
    ok_ts = r3 is not None and 'importance_at_first_request' in captured
    if ok_ts:
        snap = captured['importance_at_first_request']
        for k in ('it', 'gxx', 'extra_input'):
            ok_ts &= (snap.get(k, 1) == 0)
        for k in ('it', 'gxx', 'extra_input', 'cust'):
            ok_ts &= (k in r3.data and r3.var_importance.get(k, 1) == 0)
    if not ok_ts:
        # concrete confirmation through the real driver and the real clean-up: a custom variable that makes more
        # calculations than one clean-up period must see the inputs it was given, not re-created defaults
        seen = {}

        def heavy(r):
            for k in ('gammadet', 'gammaup3', 'Ktrace', 'betadown3', 'gdet', 'gup4', 'Kup3'):
                r[k]
            seen['gxx_is_input'] = bool(np.all(r['gxx'] == 7.0)) and bool(np.all(r['gammadown3'][0, 0] == 7.0))
            seen['extra_present'] = 'extra_input' in r.data
            return r['gxx']
        d = {'it': 0, 'gxx': 7.0 * np.ones((6, 6, 6)), 'extra_input': np.ones((6, 6, 6))}
        try:
            atime.process_single_timestep(d, fd, [{'cust': heavy}], [], False, None, {'clear_cache_every_nbr_calc': 2})
        except Exception as e:  # noqa
            seen['error'] = repr(e)[:200]
        evicted = (not seen.get('gxx_is_input', False)) or (not seen.get('extra_present', False)) or 'error' in seen
        inputs_frozen_first = all(captured.get('importance_at_first_request', {}).get(k, 1) == 0 for k in ('it', 'gxx', 'extra_input'))
        custom_unfrozen = r3 is not None and r3.var_importance.get('cust', 1) != 0
        if not evicted and inputs_frozen_first and custom_unfrozen:
            # the inputs are frozen but the custom variable is not: confirm through the real driver with a custom variable that
            # shadows a built-in ('press'), built-ins that read it requested afterwards, and a clean-up every 2 calculations
            from aurel import time as atime2
            rho_in = 1.0 + 0.1 * np.arange(216.0).reshape(6, 6, 6) / 216
            d2 = {'it': [0], 'rho': [rho_in.copy()]}
            try:
                import io as _io
                import contextlib as _cl
                with _cl.redirect_stdout(_io.StringIO()), np.errstate(all='ignore'):
                    res = atime2.over_time(d2, fd, vars=[{'press': lambda r: r['rho'] / 3.0}, 'Hamiltonian', 'press_n'], estimates=[],
                                           verbose=False, clear_cache_every_nbr_calc=2)
                dev = float(np.max(np.abs(np.asarray(res['press_n'][0]) - rho_in / 3.0)))
            except Exception as e:  # noqa
                dev, seen['error'] = float('inf'), repr(e)[:200]
            if dev > 1e-9:
                report.violation('freeze-invariant:custom variable of the time-series driver',
                                 'process_single_timestep does not freeze the custom variable it stored: with a clean-up every 2 calculations a '
                                 f"custom 'press' is evicted and the built-in press_n is computed from the default instead (deviation {dev:.3g})",
                                 report.write_replay('freeze-invariant-custom', dict(deviation=dev, importance_of_custom=float(r3.var_importance.get('cust', 1)))))
            else:
                report.harness_errors.append('process_single_timestep: custom variable not frozen, but the real clean-up run shows no eviction')
        elif evicted:
            report.violation('freeze-invariant:process_single_timestep',
                             'process_single_timestep lets a custom variable run before its inputs are frozen; with a clean-up every 2 '
                             f'calculations the custom function no longer sees its inputs: {seen}',
                             report.write_replay('freeze-invariant-timestep', dict(seen=seen, snapshot={k: float(v) for k, v in captured.get('importance_at_first_request', {}).items()})))
        else:
            report.harness_errors.append(f'process_single_timestep: inputs not frozen at the first request ({captured.get("importance_at_first_request")}) '
                                         f'but the real clean-up run shows no eviction: {seen}')
    report.record('freeze_data/load_data/process_single_timestep set importance 0 on every key present (for the driver: before the first '
                  'request a custom variable can make)',
                  'holds' if (ok and ok_ts and late_ok) else 'sat', group='freeze establishes the invariant (concrete execution)',
                  kind='concrete', trivial=True)
    if not ok:
        # concrete confirmation through the real clean-up: a frozen custom input that was read once must survive
        rel4 = AurelCore(fd, verbose=False, clear_cache_every_nbr_calc=1)
        rel4.data.update(gxx=np.ones((6, 6, 6)), my_custom=np.ones((3, 3, 6, 6, 6)))
        rel4.freeze_data()
        rel4['my_custom']
        for k in ('gammadet', 'Ktrace', 'gammaup3', 'betadown3', 'gdet'):
            rel4[k]
        evicted = 'my_custom' not in rel4.data
        report.violation('freeze-invariant', 'a loader leaves a present key with non-zero importance'
                         + (' (frozen custom input evicted by the real clean-up after 5 requests)' if evicted else ''),
                         report.write_replay('freeze-invariant', dict(evicted_in_real_run=evicted)))


def assignments(tier):
    kinds = list(KINDS)
    out = []
    kmax = 3 if tier == 'quick' else 4
    for k in range(1, kmax + 1):
        for comb in itertools.combinations_with_replacement(kinds, k):
            # same kind twice only for the ordinary ones (ties / ordering patterns)
            if any(comb.count(x) > 1 for x in set(comb) if x not in ('ordinary', 'override')):
                continue
            if tier == 'quick' and k == 3 and not any(x in FROZEN for x in comb):
                continue
            out.append(list(comb))
    return out


def main(report, tier, seed, workers, calibrate=False):
    todo = assignments(tier)
    report.bounds = dict(keys_per_state=f"<= {3 if tier == 'quick' else 4}", kinds=list(KINDS),
                         steps='one cleanup_cache call from an arbitrary valid state (inductive step)',
                         relaxations=['sizes, ages, counters are non-negative reals (superset of the integer '
                                      'behaviours)', 'count % period abstracted by an unconstrained remainder in [0, period)'],
                         outside=['get_size of exotic value types', 'real memory accounting'])
    report.assumptions += ['invariant assumed: keys(last_accessed) is a subset of keys(data); frozen => importance 0',
                           'calculation_count >= 1, clear_cache_every_nbr_calc >= 1, memory_threshold_inGB > 0, Nx,Ny,Nz >= 1']
    report.stubs += ['core.get_size -> symbolic size table', 'core.sys.getsizeof -> independent symbolic shallow-size table',
                     'AurelCore.myprint -> no-op (f-strings are still evaluated on placeholders)']
    with FuncTrace() as ft:
        # run one small assignment in-process so the function trace sees the real code
        run_assignment((['frozen-input', 'ordinary'], 2000))
    report.functions |= ft.seen
    report.extra['source_sha1'] = source_digest(FILES)
    with mp.Pool(min(workers, 16)) as pool:
        results = pool.map(run_assignment, [(k, 20000) for k in todo], chunksize=1)
    total_paths = total_q = 0
    for r in results:
        name = 'cleanup_cache[' + ','.join(r['kinds']) + ']'
        total_paths += r['paths']
        total_q += r['queries']
        solver.STATS.seconds += r.get('solver_seconds', 0.0)
        verdict = 'unsat'
        if r['inconclusive']:
            verdict = 'unknown'
            report.inconc(name, r['inconclusive'])
        if r['violations']:
            verdict = 'sat'
        report.record(name, verdict, r['seconds'], backend='z3py-inproc', sha=f"{len(r['kinds'])}:{hash(tuple(r['kinds'])) & 0xffffff:x}",
                      group=f"{len(r['kinds'])} keys", detail=dict(paths=r['paths'], queries=r['queries'],
                                                                    removed_patterns=r['removed_patterns']))
        for v in r['violations'][:3]:
            rp = replay_concrete(v['kinds'], v['model'])
            key = name + ':' + v['problems'][0]
            if rp['reproduces']:
                path = report.write_replay(key, dict(kinds=v['kinds'], model=v['model'], problems=v['problems'], replay=rp))
                report.violation(key, '; '.join(v['problems']), path)
            else:
                report.harness_errors.append(f"path model for {name} does not reproduce concretely: {rp}")
    solver.STATS.queries += total_q
    solver.STATS.by_backend['z3py-inproc'] = solver.STATS.by_backend.get('z3py-inproc', 0) + total_q
    report.extra['paths_explored'] = total_paths
    report.extra['states'] = len(todo)
    # reachability witnesses: some path removes an ordinary key, some path removes nothing
    some_removed = any(any(p for p in r['removed_patterns']) for r in results)
    none_removed = any([] in r['removed_patterns'] for r in results)
    report.vacuity.append(dict(name='some path evicts an unfrozen key', expect='yes', got='yes' if some_removed else 'no'))
    report.vacuity.append(dict(name='some path evicts nothing', expect='yes', got='yes' if none_removed else 'no'))
    if not (some_removed and none_removed):
        report.harness_errors.append('reachability witness failed for cleanup_cache exploration')
    freeze_establishes_invariant(report)


def replay_payload(payload):
    rp = replay_concrete(payload['kinds'], payload['model'])
    print(rp)
    return 1 if rp['reproduces'] else 0
