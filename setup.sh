#!/bin/bash
# Offline setup: overlay venv on top of /venv with the z3 python bindings and CrossHair from the
# local wheelhouse (no network).  Idempotent.
set -e
cd "$(dirname "$0")"
if [ ! -x .venv/bin/python ] || ! .venv/bin/python -c "import z3, crosshair" 2>/dev/null; then
  rm -rf .venv
  /venv/bin/python -m venv .venv
  echo "import site; site.addsitedir('/venv/lib/python3.12/site-packages')" \
      > .venv/lib/python3.12/site-packages/_venv_overlay.pth
  PIP_NO_INDEX=1 .venv/bin/pip install --no-index --find-links /opt/veriftools/wheels \
      z3-solver crosshair-tool >/dev/null
fi
.venv/bin/python -c "import numpy, sympy, h5py, z3, crosshair, aurel; print('deps ok', z3.get_version_string())"
/usr/bin/z3 --version
mkdir -p evidence replays
