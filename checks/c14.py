"""C14 - over_time equals independent per-step computation, correctly ordered.

The real over_time / process_single_timestep run on tables of n <= 3 steps whose temporal keys are
symbolic integers in arbitrary order and whose input cells are distinct free reals; `sorted`, the
estimators (max/min/...) and every comparison are decided by z3 or fork, all paths are explored."""
import contextlib
import io
import itertools
import multiprocessing as mp
import time

import numpy as np

from symx import term as tm, solver
from symx.sym import explore, Inconclusive, ctx, sym, SymReal, SymBool
from symx.symint import SInt
from symx.npproxy import patched
from symx.fd import UninterpretedFD, PARAM1
from symx.harness import FuncTrace, source_digest

PID = 'C14'
FILES = ['src/aurel/time.py', 'src/aurel/core.py']
CELLS = 2


def make_fd():
    from aurel.finitedifference import FiniteDifference
    fd = UninterpretedFD.__new__(UninterpretedFD)
    p = dict(PARAM1)
    p['Nx'] = CELLS
    FiniteDifference.__init__(fd, p, verbose=False)
    if fd.Nx != CELLS:       # np.arange length (C16) must not disturb this harness
        fd.Nx = CELLS
    return fd


def cell(name):
    a = np.empty((CELLS, 1, 1), dtype=object)
    for i in range(CELLS):
        a[i, 0, 0] = sym(f'{name}_c{i}')
    return a


def double_gxx(rel):
    return rel['gxx'] * 2 + rel['kxx']


def lapse_sq(rel):
    return rel['alpha'] * rel['alpha']


def ends_diff(arr):
    """custom (dict-form) estimation function: difference of the two corner cells - linear in the cells"""
    return arr[-1, -1, -1] - arr[0, 0, 0]


def lam_alpha(rel):
    """depends on the keyword options handed to over_time (**rel_kwargs): Lambda and a user attribute"""
    return rel['alpha'] * rel.Lambda + rel['gxx'] * getattr(rel, 'my_scale', 1.0)


CUSTOM = {'double_gxx': double_gxx, 'lapse_sq': lapse_sq}
# AurelCore keyword options passed through over_time(**rel_kwargs): every step's instance must receive them
KW = dict(Lambda=0.25, my_scale=3.0)
KW_REQUEST = dict(vars=[{'lam_alpha': lam_alpha}], estimates=[])
REQUESTS = [
    dict(vars=['gammadet'], estimates=['max']),
    dict(vars=[{'double_gxx': double_gxx}], estimates=[]),
    dict(vars=['Ktrace', {'lapse_sq': lapse_sq}], estimates=['min', 'x1y1z1']),
    dict(vars=[], estimates=['max', 'x0y0z0']),
    dict(vars=['gammadet', 'Ktrace'], estimates=[]),
]
EST = {'max': ('ge', None), 'min': ('le', None), 'x0y0z0': ('corner', 0), 'x1y1z1': ('corner', -1)}


def requests_for(tier):
    return REQUESTS if tier == 'thorough' else REQUESTS[:4]


def request_of(cfg, tier):
    return KW_REQUEST if cfg['req'] == 'kw' else requests_for(tier)[cfg['req']]


def kwargs_of(cfg):
    return dict(KW) if cfg['req'] == 'kw' else {}


def configs(tier):
    out = []
    for n in ((1, 2) if tier == 'quick' else (1, 2, 3)):
        for ri in range(len(requests_for(tier))):
            out.append(dict(n=n, req=ri, split=False, tkey='it'))
    if tier == 'quick':
        out.append(dict(n=3, req=1, split=False, tkey='it'))      # all 6 orderings of three steps, no estimator forks
    # real-valued times (non-integer, possibly within the same unit interval), linear request: all orderings
    out.append(dict(n=2, req=1, split=False, tkey='t'))
    out.append(dict(n=3, req=1, split=False, tkey='t'))
    # keyword options (Lambda, a user attribute) reach the instance of every step, in one call and split over two
    out.append(dict(n=2, req='kw', split=False, tkey='it'))
    out.append(dict(n=3 if tier != 'quick' else 2, req='kw', split=True, tkey='it'))
    # three successive calls with a custom (dict-form) estimate: [estimate only] ; [new variable, no estimate] ; [same variable,
    # estimate again] must give the table of the single call [variable, estimate]
    out.append(dict(n=2, req=0, split='hist3', tkey='it'))
    # splitting the requests over two successive calls gives the same table
    for n in (2,) if tier == 'quick' else (2, 3):
        out.append(dict(n=n, req=0, split=True, tkey='it'))
        out.append(dict(n=n, req=2, split=True, tkey='t'))
    return out


def expected_var(fd, step_inputs, v, kw=None):
    """value a fresh AurelCore computes from this step's inputs alone"""
    from aurel.core import AurelCore
    rel = AurelCore(fd, verbose=False, **(kw or {}))
    for k, val in step_inputs.items():
        rel.data[k] = val
    rel.freeze_data()
    if isinstance(v, dict):
        (name, f), = v.items()
        return name, f(rel)
    return v, rel[v]


def same_array(a, b):
    a, b = np.asarray(a, dtype=object), np.asarray(b, dtype=object)
    if a.shape != b.shape:
        return False
    c = ctx()
    for x, y in zip(a.flat, b.flat):
        if x is y:
            continue
        tx = x.t if isinstance(x, (SymReal, SInt)) else tm.const(x)
        ty = y.t if isinstance(y, (SymReal, SInt)) else tm.const(y)
        if tx is ty:
            continue
        if c.valid(tm.eq(tx, ty)) is not True:
            return False
    return True


def check_table(out, steps, fd, req, tkey, kw=None):
    probs = []
    c = ctx()
    n = len(steps)
    tcol = list(out[tkey])
    if len(tcol) != n:
        return [f'{len(tcol)} rows for {n} steps']
    for a, b in zip(tcol, tcol[1:]):
        if c.valid(tm.le(a.t, b.t)) is not True:
            probs.append('temporal column is not non-decreasing')
    names_in = [k for k in steps[0] if k != tkey]
    for r in range(n):
        cand = [s for s in range(n) if out[names_in[0]][r][0, 0, 0] is steps[s][names_in[0]][0, 0, 0]]
        if len(cand) != 1:
            probs.append('a row does not carry the input array of exactly one step')
            continue
        s = cand[0]
        if not (tcol[r] is steps[s][tkey] or c.valid(tm.eq(tcol[r].t, steps[s][tkey].t)) is True):
            probs.append('temporal key of a row belongs to another step (columns not permuted together)')
        for k in names_in:
            if not same_array(out[k][r], steps[s][k]):
                probs.append(f'input column {k} not preserved / taken from another step')
        inputs = {k: v for k, v in steps[s].items()}
        computed = {}
        for v in req['vars']:
            name, want = expected_var(fd, inputs, v, kw)
            computed[name] = want
            if name not in out:
                probs.append(f'requested variable {name} missing from the table')
            elif not same_array(out[name][r], want):
                probs.append(f'value stored for {name} differs from a fresh calculation on that step alone')
        scal = {k: inputs[k] for k in names_in if np.ndim(inputs[k]) == 3}
        scal.update({k: v for k, v in computed.items() if np.ndim(v) == 3})
        for e in req['estimates']:
            kind, arg = EST[e]
            for k, arr in scal.items():
                col = f'{k}_{e}'
                if col not in out:
                    probs.append(f'estimate column {col} missing')
                    continue
                got = out[col][r]
                cells = list(np.asarray(arr, dtype=object).flat)
                if kind == 'corner':
                    ok = got is cells[arg] or (isinstance(got, SymReal) and got.t is cells[arg].t)
                else:
                    gt = got.t if isinstance(got, SymReal) else tm.const(got)
                    ok = any(gt is x.t for x in cells) and all(
                        c.valid(tm.le(x.t, gt) if kind == 'ge' else tm.le(gt, x.t)) is True for x in cells)
                if not ok:
                    probs.append(f'estimate column {col} is not the estimator applied to that row\'s array')
    return probs


def tables_equal(a, b):
    if sorted(a.keys()) != sorted(b.keys()):
        return [f'column sets differ: {sorted(set(a) ^ set(b))}']
    probs = []
    for k in a:
        if not same_array(a[k], b[k]):
            probs.append(f'column {k} differs between the single call and the split calls')
    return probs


def run_config(args):
    idx, tier = args
    cfg = configs(tier)[idx]
    from aurel import time as atime
    req = request_of(cfg, tier)
    kw = kwargs_of(cfg)
    n, tkey = cfg['n'], cfg['tkey']
    name = (f"n={n} {tkey} vars={[v if isinstance(v, str) else list(v)[0] for v in req['vars']]} "
            f"estimates={req['estimates']}" + (' estimate / variable / estimate over three calls (custom estimate)' if cfg['split'] == 'hist3'
                                               else ' split over two calls' if cfg['split'] else ''))
    res = dict(name=name, idx=idx, paths=0, queries=0, bad=[], inconclusive=None)
    t0 = time.time()
    # iteration numbers are symbolic integers; times are symbolic reals (int() of one truncates)
    ints = [f'k{s}' for s in range(n)] if tkey != 't' else []

    def run(c):
        fd = make_fd()
        keys = [SInt.var(f'k{s}') for s in range(n)] if tkey != 't' else [sym(f'k{s}') for s in range(n)]
        steps = []
        for s in range(n):
            steps.append({tkey: keys[s], 'gxx': cell(f's{s}gxx'), 'kxx': cell(f's{s}kxx'), 'alpha': cell(f's{s}al')})
            # to keep the number of estimator forks manageable only the gxx column (and computed
            # variables) has an undetermined cell order; kxx and alpha cells are ordered, alpha > 0
            for col in ('kxx', 'alpha'):
                c.pre.append(tm.lt(steps[s][col][0, 0, 0].t, steps[s][col][1, 0, 0].t))
            c.pre.append(tm.lt(tm.ZERO, steps[s]['alpha'][0, 0, 0].t))
            c.pre.append(tm.lt(tm.ZERO, steps[s]['gxx'][0, 0, 0].t))
            c.pre.append(tm.lt(tm.ZERO, steps[s]['gxx'][1, 0, 0].t))
        data = {k: [st[k] for st in steps] for k in steps[0]}
        with contextlib.redirect_stdout(io.StringIO()):
            if cfg['split'] == 'hist3':
                cust = [{'ends_diff': ends_diff}]
                v_ = list(req['vars'][:1])
                full = atime.over_time(dict(data), fd, vars=list(v_), estimates=list(cust), verbose=False)
                a_ = atime.over_time(dict(data), fd, vars=[], estimates=list(cust), verbose=False)
                b_ = atime.over_time(a_, fd, vars=list(v_), estimates=[], verbose=False)
                c_ = atime.over_time(b_, fd, vars=list(v_), estimates=list(cust), verbose=False)
                probs = tables_equal(full, c_)
            elif not cfg['split']:
                out = atime.over_time(dict(data), fd, vars=list(req['vars']), estimates=list(req['estimates']), verbose=False, **kw)
                probs = check_table(out, steps, fd, req, tkey, kw)
            else:
                full = atime.over_time(dict(data), fd, vars=list(req['vars']), estimates=list(req['estimates']), verbose=False, **kw)
                probs = check_table(full, steps, fd, req, tkey, kw)
                first = atime.over_time(dict(data), fd, vars=list(req['vars'][:1]), estimates=[], verbose=False, **kw)
                second = atime.over_time(first, fd, vars=list(req['vars']), estimates=list(req['estimates']), verbose=False, **kw)
                probs += tables_equal(full, second)
        return probs
    from symx.symint import sym_int
    had_int = 'int' in vars(atime)
    old_int = vars(atime).get('int')
    atime.int = sym_int            # builtin int() collapses symbolic integers (int subclasses are copied to plain ints)
    try:
        with patched(modules=('aurel.core', 'aurel.maths', 'aurel.finitedifference')):
            for c, probs in explore(run, pre=[], backend='inproc', ints=ints, decide_timeout=5, max_paths=20000):
                res['paths'] += 1
                res['queries'] += c.decision_queries
                res['solver_seconds'] = res.get('solver_seconds', 0.0) + c.decision_seconds
                if probs and len(res['bad']) < 3:
                    v, model = c.model()
                    res['bad'].append(dict(problems=sorted(set(probs)), model={k: str(x) for k, x in model.items() if x is not None}))
                    if len(res['bad']) >= 3:
                        break          # three failing paths establish the violation: no need to enumerate the rest
    except Inconclusive as e:
        res['inconclusive'] = str(e)
    finally:
        if had_int:
            atime.int = old_int
        else:
            del atime.int
    res['seconds'] = round(time.time() - t0, 2)
    return res


def replay_config(tier, idx, model):
    """Concrete float replay: real FiniteDifference, numpy arrays from the model, same expectations."""
    from fractions import Fraction
    from aurel import time as atime
    from aurel.core import AurelCore
    from aurel.finitedifference import FiniteDifference
    cfg = configs(tier)[idx]
    req = request_of(cfg, tier)
    kw = kwargs_of(cfg)
    n, tkey = cfg['n'], cfg['tkey']
    param = {'xmin': 0.0, 'ymin': 0.0, 'zmin': 0.0, 'dx': 1.0, 'dy': 1.0, 'dz': 1.0, 'Nx': 6, 'Ny': 6, 'Nz': 6}
    fd = FiniteDifference(param, verbose=False)
    rng = np.random.default_rng(0)

    def val(nm, default):
        return float(Fraction(model[nm])) if nm in model else default
    steps = []
    for s in range(n):
        st = {tkey: (int(val(f'k{s}', s)) if tkey != 't' else float(val(f'k{s}', s)))}
        for nm in ('gxx', 'kxx', 'al'):
            base = rng.uniform(0.5, 1.5, size=(6, 6, 6))
            base[0, 0, 0] = val(f's{s}{nm}_c0', base[0, 0, 0])
            base[-1, -1, -1] = val(f's{s}{nm}_c1', base[-1, -1, -1])
            st['alpha' if nm == 'al' else nm] = base
        steps.append(st)
    data = {k: [st[k] for st in steps] for k in steps[0]}
    copies = {k: [np.copy(x) for x in v] for k, v in data.items()}
    if cfg['split'] == 'hist3':
        cust = [{'ends_diff': ends_diff}]
        v_ = list(req['vars'][:1])
        with contextlib.redirect_stdout(io.StringIO()):
            full = atime.over_time({k: list(v) for k, v in data.items()}, fd, vars=list(v_), estimates=list(cust), verbose=False)
            a_ = atime.over_time({k: list(v) for k, v in data.items()}, fd, vars=[], estimates=list(cust), verbose=False)
            b_ = atime.over_time(a_, fd, vars=list(v_), estimates=[], verbose=False)
            c_ = atime.over_time(b_, fd, vars=list(v_), estimates=list(cust), verbose=False)
        bad = []
        if sorted(full.keys()) != sorted(c_.keys()):
            bad.append(f'column sets differ: {sorted(set(full) ^ set(c_))}')
        else:
            for k in full:
                if not all(np.allclose(x, y) for x, y in zip(full[k], c_[k])):
                    bad.append(f'column {k} differs')
        return dict(problems=bad, reproduces=bool(bad))
    with contextlib.redirect_stdout(io.StringIO()):
        out = atime.over_time(dict(data), fd, vars=list(req['vars']), estimates=list(req['estimates']), verbose=False, **kw)
    bad = []
    tcol = list(out[tkey])
    if any(a > b for a, b in zip(tcol, tcol[1:])):
        bad.append('temporal column not sorted')
    order = sorted(range(n), key=lambda s: steps[s][tkey])
    for r, s in enumerate(order):
        for k in ('gxx', 'kxx', 'alpha'):
            if not np.array_equal(out[k][r], copies[k][s]):
                bad.append(f'input column {k} row {r}')
        rel = AurelCore(fd, verbose=False, **kw)
        for k in ('gxx', 'kxx', 'alpha'):
            rel.data[k] = copies[k][s]
        rel.data[tkey] = steps[s][tkey]
        rel.freeze_data()
        for v in req['vars']:
            if isinstance(v, dict):
                (nm, f), = v.items()
                want = f(rel)
            else:
                nm, want = v, rel[v]
            if not np.allclose(out[nm][r], want):
                bad.append(f'variable {nm} row {r}')
            for e in req['estimates']:
                if np.ndim(want) == 3 and not np.isclose(out[f'{nm}_{e}'][r], atime.est_functions[e](want)):
                    bad.append(f'estimate {nm}_{e} row {r}')
        for e in req['estimates']:
            for k in ('gxx', 'kxx', 'alpha'):
                if f'{k}_{e}' in out and not np.isclose(out[f'{k}_{e}'][r], atime.est_functions[e](copies[k][s])):
                    bad.append(f'estimate {k}_{e} row {r}')
    return dict(problems=bad, reproduces=bool(bad))


def main(report, tier, seed, workers, calibrate=False):
    cfgs = configs(tier)
    report.bounds = dict(steps='n <= 2 (quick) / 3 (thorough)', cells=f'{CELLS} x 1 x 1 per array', temporal_key='symbolic integers, any order, ties allowed',
                         requests=[str({'vars': [v if isinstance(v, str) else list(v)[0] for v in r['vars']], 'estimates': r['estimates']}) for r in requests_for(tier)],
                         splits='first request alone, then everything, vs one call',
                         keyword_options=str(KW) + ' (one request whose value depends on them; other options at their defaults)',
                         outside=['tqdm / printing', 'percentile-type estimators', 'AurelCore keyword options other than Lambda and one user attribute'])
    report.assumptions += ['input cells are distinct free reals; pointwise variables (derivative operator uninterpreted)']
    report.stubs += ['aurel.core/maths/finitedifference .np -> symx.npproxy', 'fd -> UninterpretedFD with Nx=2', 'stdout redirected']
    with FuncTrace() as ft:
        run_config((0, tier))
    report.functions |= ft.seen
    report.extra['source_sha1'] = source_digest(FILES)
    with mp.Pool(min(workers, len(cfgs))) as pool:
        results = pool.map(run_config, [(i, tier) for i in range(len(cfgs))], chunksize=1)
    tot = 0
    for r in results:
        tot += r['paths']
        verdict = 'unsat'
        if r['inconclusive']:
            verdict = 'unknown'
            report.inconc(r['name'], r['inconclusive'])
        if r['bad']:
            verdict = 'sat'
        report.record(r['name'], verdict, r['seconds'], backend='z3py-inproc', sha=f"{r['paths']}p{r['queries']}q:{r['idx']}",
                      group=f"n={r['name'].split(' ')[0][2:]} steps", detail=dict(paths=r['paths'], queries=r['queries']))
        solver.STATS.queries += r['queries']
        solver.STATS.seconds += r.get('solver_seconds', 0.0)
        solver.STATS.by_backend['z3py-inproc'] = solver.STATS.by_backend.get('z3py-inproc', 0) + r['queries']
        for b in r['bad'][:1]:
            try:
                rp = replay_config(tier, r['idx'], b['model'])
            except Exception as e:  # noqa
                rp = dict(problems=[repr(e)[:120]], reproduces=True)
            key = b['problems'][0][:90]
            if rp['reproduces']:
                path = report.write_replay(f"cfg{r['idx']}", dict(config=r['name'], idx=r['idx'], tier=tier, model=b['model'],
                                                                   problems=b['problems'], replay=rp))
                report.violation(key, f"{r['name']}: {b['problems'][0]}; float replay: {rp['problems'][:2]}", path)
            else:
                report.harness_errors.append(f"{r['name']}: symbolic path reports {b['problems'][:2]} but the float replay does not")
    report.extra['paths_explored'] = tot
    for i in range(len(cfgs)):
        rp = replay_config(tier, i, {f'k{s}': str((5 - 2 * s) % 4) for s in range(3)})
        report.validation['translator_checks'] += 1
        if rp['reproduces']:
            path = report.write_replay(f"cfg{i}_concrete", dict(config=results[i]['name'], idx=i, tier=tier, model={}, replay=rp))
            report.violation(rp['problems'][0][:90], f"{results[i]['name']} (concrete): {rp['problems'][:2]}", path)
    report.vacuity.append(dict(name='n=2 configurations explore both orderings (>= 2 paths)', expect='yes',
                               got='yes' if all(r['paths'] >= 2 for r in results if r['name'].startswith('n=2')) else 'no'))


def replay_payload(payload):
    rp = replay_config(payload.get('tier', 'quick'), payload['idx'], payload.get('model', {}))
    print(rp)
    return 1 if rp['reproduces'] else 0
