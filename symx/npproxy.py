"""numpy proxy installed as `np` in the aurel modules for the duration of a harness.
Forwards everything to numpy except the allocators (object arrays of exact zeros/ones so that
`R = np.zeros(...); R[...] = symbolic` works) and a few functions that have no object-dtype
loop.  Nothing in /repo is modified on disk."""
import contextlib
import importlib

import numpy as _np

from . import term as tm
from .sym import SymReal, SymBool, SymComplex
from .jet import Jet

F0 = _np.float64(0.0)
F1 = _np.float64(1.0)


def _obj_full(shape, v):
    a = _np.empty(shape, dtype=object)
    a.fill(v)
    return a


def _elementwise(f, x):
    if isinstance(x, _np.ndarray):
        out = _np.empty(x.shape, dtype=object)
        for idx in _np.ndindex(*x.shape):
            out[idx] = f(x[idx])
        return out
    return f(x)


def _is_symbolic(x):
    if isinstance(x, (SymReal, Jet, SymComplex, SymBool)):
        return True
    return isinstance(x, _np.ndarray) and x.dtype == object


class NPProxy:
    def __init__(self, atoms=None):
        # atoms: optional {'pi': SymReal, ...} exact constants for harnesses that need them
        self._atoms = atoms or {}

    def __getattr__(self, name):
        if name in self._atoms:
            return self._atoms[name]
        return getattr(_np, name)

    # allocators ------------------------------------------------------------
    def zeros(self, shape, dtype=None, **kw):
        if dtype is not None and dtype not in (float, _np.float64, complex):
            return _np.zeros(shape, dtype=dtype, **kw)
        return _obj_full(shape, F0)

    def ones(self, shape, dtype=None, **kw):
        if dtype is not None and dtype not in (float, _np.float64):
            return _np.ones(shape, dtype=dtype, **kw)
        return _obj_full(shape, F1)

    def zeros_like(self, a, dtype=None, **kw):
        return _obj_full(_np.shape(a), F0)

    # functions without usable object loops ----------------------------------
    def sign(self, x):
        if not _is_symbolic(x):
            return _np.sign(x)

        def sgn(e):
            if isinstance(e, (SymReal, Jet)):
                if bool(e > 0):
                    return F1
                if bool(e < 0):
                    return -F1
                return F0
            return _np.sign(e)
        return _elementwise(sgn, x)

    # symbolic elements are reals: always finite, never NaN (what these predicates do on floats is C08's QF_FP layer)
    def isfinite(self, x):
        if _is_symbolic(x):
            return _np.ones(_np.shape(x), dtype=bool) if _np.ndim(x) else True
        return _np.isfinite(x)

    def isnan(self, x):
        if _is_symbolic(x):
            return _np.zeros(_np.shape(x), dtype=bool) if _np.ndim(x) else False
        return _np.isnan(x)

    def isinf(self, x):
        if _is_symbolic(x):
            return _np.zeros(_np.shape(x), dtype=bool) if _np.ndim(x) else False
        return _np.isinf(x)

    def real(self, x):
        if _is_symbolic(x):
            return _elementwise(lambda e: e.real if hasattr(e, 'real') else e, x)
        return _np.real(x)

    def imag(self, x):
        if _is_symbolic(x):
            return _elementwise(lambda e: e.imag if hasattr(e, 'imag') else 0.0, x)
        return _np.imag(x)

    def conj(self, x):
        if _is_symbolic(x):
            return _elementwise(lambda e: e.conjugate() if hasattr(e, 'conjugate') else e, x)
        return _np.conj(x)

    def _trig(self, name, x):
        if not _is_symbolic(x):
            return getattr(_np, name)(x)

        def one(e):
            if isinstance(e, (SymReal, Jet)):
                return getattr(e, name)()
            return getattr(SymReal(tm.const(e)), name)()
        return _elementwise(one, x)

    def cos(self, x):
        return self._trig('cos', x)

    def sin(self, x):
        return self._trig('sin', x)

    def arccos(self, x):
        return self._trig('arccos', x)

    def sqrt(self, x):
        if isinstance(x, (SymReal, Jet)):
            return x.sqrt()
        if type(x).__module__.startswith('sympy'):       # a module constant standing in as a sympy expression (C17)
            import sympy
            return sympy.sqrt(x)
        sq = self._atoms.get('sqrt_const')
        if sq is not None and not _is_symbolic(x) and _np.ndim(x) == 0:
            return sq(x)
        return _np.sqrt(x)


MODULES = ('aurel.core', 'aurel.maths', 'aurel.finitedifference')


@contextlib.contextmanager
def patched(modules=MODULES, atoms=None):
    proxy = NPProxy(atoms)
    saved = []
    for name in modules:
        m = importlib.import_module(name)
        saved.append((m, m.np))
        m.np = proxy
    try:
        yield proxy
    finally:
        for m, old in saved:
            m.np = old
