"""Pure-Python in-memory stand-ins for h5py / os / numpy used by the CrossHair contracts on the real
aurel.reading functions (C12, C13, C02 argument contracts).  Content of datasets is an opaque tag."""


def shape_of(x):
    return tuple(getattr(x, 'shape', ()))


def dtype_of(x):
    """'f' / 'i' kind of an opaque dataset value (tags carry .dtype; bare integers are 'i')"""
    d = getattr(x, 'dtype', None)
    if d is not None:
        return d
    return 'i' if type(x).__name__ in ('int', 'SInt', 'SIntInt') else 'f'


class FakeDataset:
    def __init__(self, data, attrs=None):
        self.data = data
        self.attrs = attrs or {}


class DatasetView:
    """what f[name] returns: shape, attrs, and assignment in place - which, as in h5py, keeps the dataset's dtype (a value
    of another kind is converted: marked on the tag with .cast_from)"""

    def __init__(self, ds):
        self._ds = ds

    @property
    def data(self):
        return self._ds.data

    @property
    def attrs(self):
        return self._ds.attrs

    @property
    def shape(self):
        return shape_of(self._ds.data)

    @property
    def dtype(self):
        return dtype_of(self._ds.data)

    def __getitem__(self, idx):
        return self._ds.data

    def __setitem__(self, idx, value):
        if shape_of(value) != self.shape:
            raise TypeError("Can't broadcast to the dataset's shape")
        have = dtype_of(self._ds.data)
        if dtype_of(value) != have and hasattr(value, 'converted'):
            value = value.converted(have)
        self._ds.data = value

    # opaque tags are tuples: let comparisons / indexing of the underlying value through
    def __iter__(self):
        return iter(self._ds.data)

    def __len__(self):
        return len(self._ds.data)

    def __eq__(self, o):
        return self._ds.data == (o.data if isinstance(o, DatasetView) else o)

    def __hash__(self):
        return hash(self._ds.data)


class FakeFile:
    def __init__(self, fs, name, mode):
        self.fs, self.name, self.mode = fs, name, mode
        if mode == 'a' and name not in fs.files:
            fs.files[name] = {}
        if mode == 'r' and name not in fs.files:
            raise OSError(f"no such file {name}")
        self.d = fs.files[name]

    def __enter__(self):
        return self

    def __exit__(self, *a):
        return False

    def keys(self):
        return list(self.d.keys())

    def __contains__(self, k):
        return k in self.d

    def __getitem__(self, k):
        return DatasetView(self.d[k])

    def __delitem__(self, k):
        del self.d[k]

    def create_dataset(self, name, data=None):
        if data is None:
            raise TypeError("One of data, shape or dtype must be specified")
        if name in self.d:
            raise ValueError("Unable to create dataset (name already exists)")
        self.d[name] = FakeDataset(data)


class FakeFS:
    def __init__(self):
        self.files = {}
        self.dirs = set()


class FakeH5:
    def __init__(self, fs):
        self.fs = fs

    def File(self, name, mode='r'):
        return FakeFile(self.fs, name, mode)


class FakePath:
    def __init__(self, fs):
        self.fs = fs
        self.sep = '/'

    def exists(self, p):
        return p in self.fs.files or p in self.fs.dirs or p.rstrip('/') in self.fs.dirs

    def join(self, *a):
        return '/'.join(x.rstrip('/') for x in a)

    def basename(self, p):
        return p.rsplit('/', 1)[-1]

    def dirname(self, p):
        return p.rsplit('/', 1)[0]


class FakeOS:
    def __init__(self, fs):
        self.fs = fs
        self.path = FakePath(fs)
        self.sep = '/'

    def makedirs(self, p, exist_ok=False):
        self.fs.dirs.add(p.rstrip('/'))


class Arr(list):
    """list with the few ndarray operations reading.py applies to iteration arrays"""

    def __sub__(self, o):
        return Arr([x - o for x in self])

    def __rsub__(self, o):
        return Arr([o - x for x in self])

    def __abs__(self):
        return Arr([abs(x) for x in self])


class FakeNP:
    """the subset of numpy that read_aurel_data / save_data / the read cache touch"""
    integer = int

    @staticmethod
    def array(x):
        if isinstance(x, DatasetView):
            return x.data
        return Arr(x) if isinstance(x, list) else x      # dataset tags (tuples) are opaque

    @staticmethod
    def shape(x):
        return shape_of(x.data if isinstance(x, DatasetView) else x)

    @staticmethod
    def sort(x):
        return Arr(sorted(x))

    @staticmethod
    def abs(x):
        return Arr([abs(v) for v in x])

    @staticmethod
    def argmin(x):
        best, bi = None, 0
        for i, v in enumerate(x):
            if best is None or v < best:
                best, bi = v, i
        return bi

    @staticmethod
    def max(x):
        return max(x)

    @staticmethod
    def sum(x):
        return sum(x)

    @staticmethod
    def arange(n):
        return list(range(n))
