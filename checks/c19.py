"""C19 - kinematics of the default (Eulerian) observers reduce to the 3+1 identities."""
import itertools

import numpy as np

from symx import term as tm, oracle
from symx.sym import Ctx, use_ctx
from symx.jet import Jet
from symx.npproxy import patched
from symx.harness import Ob, FuncTrace, source_digest
from . import gr
from .common import process_jet, vacuity, witness_sat, load_calib, save_calib

PID = 'C19'
FILES = ['src/aurel/core.py']


def T0(x):
    return x.trunc(0) if isinstance(x, Jet) else x


def build(tier):
    blocks = []
    with patched():
        S = gr.Setup(order=2, vacuum=False, matter=None, Lambda=False)
        st = S.st
        c = Ctx(pre=S.pre, fork=False)
        obs = []
        with use_ctx(c):
            rel = S.run.symbolic_rel()
            a0 = st.alpha.trunc(0)
            b0 = oracle.truncate(st.beta, 0)
            g0 = oracle.truncate(st.g, 0)
            gi0 = oracle.truncate(st.gammainv, 0)
            gam0 = oracle.truncate(st.gamma, 0)
            K = oracle.truncate(st.Kdown, 0)
            trK = sum(gi0[i, j] * K[i, j] for i in range(3) for j in range(3))
            n_up = st.normal_up
            uu = rel['uup4']
            for m in range(4):
                obs.append(Ob(f'uup4[{m}]', T0(uu[m, 0, 0, 0]), n_up[m], S.pre,
                              get=lambda r, m=m: r['uup4'][m], group='uup4 == n^mu'))
            # nabla_mu n_nu from the reference connection
            G4 = st.Gamma
            ndown = [-st.alpha, 0, 0, 0]
            cov = rel['st_covd_udown4']
            comps = list(itertools.product(range(4), repeat=2))
            for m, nu in comps:
                dn = -st.alpha.diff(m) if nu == 0 else 0
                want = dn + T0(st.alpha) * T0(G4[0, m, nu])
                obs.append(Ob(f'st_covd_udown4[{m},{nu}]', T0(cov[m, nu, 0, 0, 0]), T0(want), S.pre,
                              get=lambda r, m=m, nu=nu: r['st_covd_udown4'][m, nu],
                              group='st_covd_udown4 == nabla_mu n_nu'))
            obs.append(Ob('theta', T0(rel['theta'][0, 0, 0]), -trK, S.pre,
                          get=lambda r: r['theta'], group='theta == -K'))
            # shear = -(K_ij - gamma_ij K/3) embedded like s_to_st
            A = oracle.arr((3, 3))
            for i in range(3):
                for j in range(3):
                    A[i, j] = -(K[i, j] - gam0[i, j] * trK / 3)
            A4 = oracle.arr((4, 4))
            A4[0, 0] = sum(b0[i] * b0[j] * A[i, j] for i in range(3) for j in range(3))
            for k in range(3):
                A4[0, k + 1] = A4[k + 1, 0] = sum(b0[i] * A[i, k] for i in range(3))
                for l in range(3):
                    A4[k + 1, l + 1] = A[k, l]
            sh = rel['sheardown4']
            thd = rel['thetadown4']          # cache hit right after the shear was computed (no clean-up in between)
            om = rel['omegadown4']
            for m in range(4):
                for nu in range(m, 4):
                    obs.append(Ob(f'sheardown4[{m},{nu}]', T0(sh[m, nu, 0, 0, 0]), A4[m, nu], S.pre,
                                  get=lambda r, m=m, nu=nu: r['sheardown4'][m, nu],
                                  group='sheardown4 == -A_ij (embedded)'))
                    obs.append(Ob(f'omegadown4[{m},{nu}]', T0(om[m, nu, 0, 0, 0]), tm.ZERO, S.pre,
                                  get=lambda r, m=m, nu=nu: r['omegadown4'][m, nu],
                                  group='omegadown4 == 0'))
            # expansion tensor read *after* the shear (and everything above) was requested on the same instance:
            # theta_mu_nu == -K_mu_nu embedded; a body that builds the shear inside the cached expansion tensor shows here
            K4 = oracle.arr((4, 4))
            K4[0, 0] = -sum(b0[i] * b0[j] * K[i, j] for i in range(3) for j in range(3))
            for k in range(3):
                K4[0, k + 1] = K4[k + 1, 0] = -sum(b0[i] * K[i, k] for i in range(3))
                for l in range(3):
                    K4[k + 1, l + 1] = -K[k, l]
            for m in range(4):
                for nu in range(m, 4):
                    obs.append(Ob(f'thetadown4[{m},{nu}] read after the shear', T0(thd[m, nu, 0, 0, 0]), K4[m, nu], S.pre,
                                  get=lambda r, m=m, nu=nu: (r['sheardown4'], r['thetadown4'][m, nu])[1],
                                  group='thetadown4 == -K_mu_nu (embedded), after sheardown4 was requested'))
            obs.append(Ob('omega2', T0(rel['omega2'][0, 0, 0]), tm.ZERO, S.pre,
                          get=lambda r: r['omega2'], group='omega2 == 0'))
            acc = rel['accelerationdown4']
            dlna = [st.alpha.diff(i + 1).trunc(0) / a0 for i in range(3)]
            want = [sum(b0[k] * dlna[k] for k in range(3))] + dlna
            for m in range(4):
                obs.append(Ob(f'accelerationdown4[{m}]', T0(acc[m, 0, 0, 0]), want[m], S.pre,
                              get=lambda r, m=m: r['accelerationdown4'][m],
                              group='accelerationdown4 == (beta^k d_k ln alpha, d_i ln alpha)'))
            an = sum(T0(acc[m, 0, 0, 0]) * n_up[m] for m in range(4))
            obs.append(Ob('a_mu n^mu', an, tm.ZERO, S.pre, group='a_mu n^mu == 0'))
            if tier == 'thorough':
                sh2 = rel['shear2']
                A2 = sum(gi0[i, k] * gi0[j, l] * A[i, j] * A[k, l]
                         for i in range(3) for j in range(3) for k in range(3) for l in range(3)) * 0.5
                obs.append(Ob('shear2', T0(sh2[0, 0, 0]), A2, S.pre, get=lambda r: r['shear2'],
                              group='shear2 == A_ij A^ij / 2'))
        blocks.append(dict(name='eulerian', setup=S, run=S.run, obs=obs, ctx=c))
    return blocks


def main(report, tier, seed, workers, calibrate=False):
    report.bounds = dict(jet_order=2, jet_dim=4, grid='1x1x1 (continuum limit)',
                         fluid='default (no matter keys supplied)',
                         outside=['non-default fluids (dtconserved documents constant pressure/density)',
                                  'float round-off', 'consistency=>convergence composition argument'])
    report.assumptions += ['lapse > 0 (time dependent), any shift, positive-definite metric, any K',
                           'floats are reals; literal policy']
    report.stubs += ['aurel.*.np -> symx.npproxy', 'FiniteDifference.d3x/d3y/d3z -> exact jet differentiation']
    calib = load_calib(PID)
    with FuncTrace() as ft:
        blocks = build(tier)
    report.functions |= ft.seen
    report.extra['source_sha1'] = source_digest(FILES)
    for blk in blocks:
        S = blk['setup']
        vacuity(report, S.pre, name=f"{blk['name']}:pre")
        sl = S.slices()
        rungs = [dict(name='full', envs=[None], timeout=60 if tier == 'quick' else 300),
                 dict(name='slices:metric-value-fixed', envs=[sl[0][1], sl[1][1]],
                      timeout=300 if tier == 'quick' else 900)]
        process_jet(report, blk['run'], blk['obs'], rungs, sampler=S.sampler(), workers=workers,
                    calib=calib, seed=seed, verbose=bool(calibrate))
        report.extra.setdefault('branch_decisions', {})[blk['name']] = blk['ctx'].decision_queries
        if calibrate:
            save_calib(PID, blk['obs'], rungs)
    pick = [ob for ob in blocks[0]['obs'] if ob.name == 'theta'][0]
    witness_sat(report, pick, 'theta == -K + 1 (wrong)')


def replay_payload(payload):
    from .common import replay_blocks
    return replay_blocks(build, payload)
