"""ShapeArr: a stand-in for a 3-D dataset whose *contents are only moved* (reading.py):
shape and placement are symbolic integers, the content is a list of bricks
(destination offset, size, source chunk, source offset) per array axis."""
from .symint import SInt
from .sym import SymBool
from . import term as tm


def S(x):
    return x if isinstance(x, SInt) else SInt(tm.const(int(x)))


def smin(a, b):
    return a if bool(S(a) <= S(b)) else b


def smax(a, b):
    return a if bool(S(a) >= S(b)) else b


class Brick:
    __slots__ = ('src', 'axes')

    def __init__(self, src, axes):
        self.src = src
        self.axes = axes          # per array axis: (dest_off, size, src_axis, src_off)

    def __repr__(self):
        return f"Brick({self.src}, {self.axes})"


class ShapeArr:
    def __init__(self, shape, bricks):
        self.shape = tuple(shape)
        self.bricks = bricks
        self.ndim = len(self.shape)

    @staticmethod
    def chunk(src, shape):
        return ShapeArr(shape, [Brick(src, [(S(0), S(n), ax, S(0)) for ax, n in enumerate(shape)])])

    # -- numpy protocol used by reading.py -------------------------------------------
    def __getitem__(self, key):
        if not isinstance(key, tuple):
            key = (key,)
        key = tuple(key) + (slice(None),) * (self.ndim - len(key))
        bounds = []
        for ax, sl in enumerate(key):
            if not isinstance(sl, slice) or sl.step not in (None, 1):
                raise TypeError("ShapeArr supports plain slices only")
            n = S(self.shape[ax])
            start = S(0) if sl.start is None else S(sl.start)
            stop = n if sl.stop is None else S(sl.stop)
            # Python slice normalisation
            if bool(start < 0):
                start = smax(start + n, S(0))
            else:
                start = smin(start, n)
            if bool(stop < 0):
                stop = smax(stop + n, S(0))
            else:
                stop = smin(stop, n)
            if bool(stop < start):
                stop = start
            bounds.append((start, stop))
        shape = tuple(b - a for a, b in bounds)
        bricks = []
        for br in self.bricks:
            axes = []
            empty = False
            for ax, (d, s, sa, so) in enumerate(br.axes):
                a, b = bounds[ax]
                lo = smax(d, a)
                hi = smin(d + s, b)
                if bool(hi <= lo):
                    empty = True
                    break
                axes.append((lo - a, hi - lo, sa, so + (lo - d)))
            if not empty:
                bricks.append(Brick(br.src, axes))
        return ShapeArr(shape, bricks)

    def transpose(self, perm):
        return ShapeArr([self.shape[p] for p in perm], [Brick(b.src, [b.axes[p] for p in perm]) for b in self.bricks])

    def __repr__(self):
        return f"ShapeArr(shape={self.shape}, {len(self.bricks)} bricks)"


def append(a, b, axis):
    if a.ndim != b.ndim:
        raise ValueError("all the input arrays must have same number of dimensions")
    for ax in range(a.ndim):
        if ax != axis and not (S(a.shape[ax]) == S(b.shape[ax])):
            raise ValueError("all the input array dimensions except for the concatenation axis must match exactly")
    shape = list(a.shape)
    shape[axis] = S(a.shape[axis]) + S(b.shape[axis])
    off = S(a.shape[axis])
    bricks = list(a.bricks)
    for br in b.bricks:
        axes = list(br.axes)
        d, s, sa, so = axes[axis]
        axes[axis] = (d + off, s, sa, so)
        bricks.append(Brick(br.src, axes))
    return ShapeArr(shape, bricks)
