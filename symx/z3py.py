"""In-process z3 (5.1 wheel) for the many small branch decisions of the forking harnesses
(C03, C11, C14).  Heavy identities never come here (subprocess + wall-clock kill instead)."""
import time
from fractions import Fraction

from . import term as tm

try:
    import z3
except ImportError:  # pragma: no cover
    z3 = None


class InProc:
    def __init__(self, timeout_ms=5000, ints=()):
        if z3 is None:
            raise RuntimeError("z3 python bindings not available (run ./setup.sh)")
        self.cache = {}
        self.timeout_ms = timeout_ms
        self.seconds = 0.0
        self.queries = 0
        self.ints = set(ints)          # variable names of Int sort (LIA harnesses)

    def conv(self, t):
        c = self.cache.get(t.id)
        if c is not None:
            return c
        op = t.op
        if op == 'c':
            r = z3.RealVal(str(t.val)) if not self.ints else (
                z3.IntVal(int(t.val)) if t.val.denominator == 1 else z3.RealVal(str(t.val)))
        elif op == 'v':
            r = z3.Int('v_' + t.val) if (t.val in self.ints or t.val.startswith('__tr')) else z3.Real('v_' + t.val)
        elif op in tm.ATOM_OPS:
            r = z3.Real(tm._vname(t))
        elif op == 'sum':
            c0, items = t.val
            parts = []
            if c0 != 0:
                parts.append(self.conv(tm.const(c0)))
            for a, (_, cf) in zip(t.args, items):
                e = self.conv(a)
                parts.append(e if cf == 1 else self.conv(tm.const(cf)) * e)
            r = parts[0]
            for p in parts[1:]:
                r = r + p
        elif op == 'prod':
            r = None
            for a, (_, e) in zip(t.args, t.val):
                x = self.conv(a)
                for _ in range(e):
                    r = x if r is None else r * x
        elif op == 'ite':
            r = z3.If(self.conv(t.args[0]), self.conv(t.args[1]), self.conv(t.args[2]))
        elif op == 'b':
            r = z3.BoolVal(t.val)
        elif op == 'cmp':
            d = self.conv(t.args[0])
            r = {'<': d < 0, '<=': d <= 0, '=': d == 0, '!=': d != 0}[t.val]
        elif op == 'and':
            r = z3.And(*[self.conv(a) for a in t.args])
        elif op == 'or':
            r = z3.Or(*[self.conv(a) for a in t.args])
        elif op == 'not':
            r = z3.Not(self.conv(t.args[0]))
        else:  # pragma: no cover
            raise ValueError(op)
        self.cache[t.id] = r
        return r

    def check(self, asserts, want_model=False):
        goal = tm.band(list(asserts))
        if goal is tm.FALSE:
            return 'unsat', {}
        nodes, axioms = tm.close_with_axioms([goal])
        s = z3.Solver()
        s.set('timeout', self.timeout_ms)
        s.add(self.conv(goal))
        for a in axioms:
            s.add(self.conv(a))
        self.queries += 1
        _t0 = time.time()
        r = s.check()
        self.seconds += time.time() - _t0
        if r == z3.sat:
            model = {}
            if want_model:
                m = s.model()
                for t in nodes:
                    if t.op == 'v':
                        v = m.eval(self.conv(t), model_completion=True)
                        try:
                            model[t.val] = Fraction(v.as_fraction()) if hasattr(v, 'as_fraction') else Fraction(v.as_long())
                        except Exception:  # algebraic number
                            try:
                                model[t.val] = Fraction(v.approx(20).as_fraction())
                            except Exception:
                                model[t.val] = None
            return 'sat', model
        if r == z3.unsat:
            return 'unsat', {}
        return 'unknown', {}
