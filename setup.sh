#!/bin/bash
# Offline setup: nothing to build for the symx engine (pure Python on /venv + z3 binaries).
# CrossHair is installed on demand by the checks that use it (see checks/crosshair_env.py).
set -e
cd "$(dirname "$0")"
/venv/bin/python -c "import numpy, sympy, h5py; print('deps ok')"
/usr/bin/z3 --version
mkdir -p evidence replays
