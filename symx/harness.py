"""Harness layer: run the real AurelCore on symbolic inputs, build obligations, discharge
them in parallel, replay models on the real float code, write evidence."""
import hashlib
import inspect
import itertools
import json
import math
import os
import random
import sys
import time
from fractions import Fraction

import numpy as np

from . import term as tm
from . import solver
from .sym import SymReal, SymBool, SymComplex, Ctx, use_ctx, Inconclusive, sym
from .jet import Jet, value_term
from .npproxy import patched
from .fd import JetFD, UninterpretedFD

VERIF = os.path.dirname(os.path.dirname(os.path.abspath(__file__)))
REPO = os.environ.get('AUREL_REPO', '/repo')

EXIT_OK, EXIT_VIOLATION, EXIT_INCONCLUSIVE, EXIT_HARNESS = 0, 1, 2, 3


# --------------------------------------------------------------------------- obligations
class Ob:
    """impl == oracle (terms) under pre; `get` re-extracts impl from a float run for replay."""

    def __init__(self, name, impl, oracle, pre, get=None, group=None, tol=None, meta=None):
        self.name = name
        self.impl = impl if isinstance(impl, tm.T) else value_term(impl)
        self.oracle = oracle if isinstance(oracle, tm.T) else value_term(oracle)
        self.pre = list(pre)
        self.get = get
        self.group = group or name
        self.tol = tol
        self.meta = meta or {}
        self.result = None

    def query(self):
        if self.tol is None:
            return self.pre + [tm.ne(self.impl, self.oracle)]
        d = tm.sub(self.impl, self.oracle)
        t = tm.const(self.tol)
        return self.pre + [tm.bor([tm.lt(t, d), tm.lt(d, tm.neg(t))])]


def discharge(obs, timeout_s=60, workers=None, backend='z3old', retry_backends=()):
    """Solve all obligations in parallel; trivial syntactic equalities are counted separately."""
    jobs = []
    for i, ob in enumerate(obs):
        if ob.tol is None and ob.impl is ob.oracle:
            ob.result = dict(verdict='unsat', model={}, seconds=0.0, sha='syntactic', trivial=True)
        else:
            jobs.append((i, ob.query()))
    res = solver.check_many(jobs, workers=workers, timeout_s=timeout_s, backend=backend)
    for i, r in res.items():
        obs[i].result = r
        obs[i].result['backend'] = backend
    for be in retry_backends:
        again = [(i, obs[i].query()) for i, r in res.items() if r['verdict'] == 'unknown']
        if not again:
            break
        res2 = solver.check_many(again, workers=workers, timeout_s=timeout_s, backend=be)
        for i, r in res2.items():
            if r['verdict'] != 'unknown':
                obs[i].result = r
                obs[i].result['backend'] = be
                res[i] = r
    return obs


# --------------------------------------------------------------------------- jet harness
def grid_fd(N, h, fd_order=8, boundary='no boundary'):
    from aurel.finitedifference import FiniteDifference
    half = N // 2
    param = {'xmin': -half * h, 'ymin': -half * h, 'zmin': -half * h,
             'dx': h, 'dy': h, 'dz': h, 'Nx': N, 'Ny': N, 'Nz': N}
    fd = FiniteDifference(param, boundary=boundary, fd_order=fd_order, verbose=False)
    # guard against the arange length defect (C16) in replays: force exact N points
    if fd.Nx != N or fd.Ny != N or fd.Nz != N:
        ar = (np.arange(N) - half) * h
        fd.xarray = fd.yarray = fd.zarray = ar
        fd.Nx = fd.Ny = fd.Nz = N
        fd.x, fd.y, fd.z = np.meshgrid(ar, ar, ar, indexing='ij')
        fd.cartesian_coords = np.array([fd.x, fd.y, fd.z])
    return fd


def eval_terms(terms, model):
    env = {}
    for v in tm.free_vars(terms):
        val = model.get(v.val)
        env[v.val] = Fraction(0) if val is None else val
    # uninterpreted fn atoms
    for t in tm.reachable(list(terms)):
        if t.op == 'fn':
            if tm._vname(t) not in model and t.val in tm.FN_EVAL:
                continue                      # computed from its argument
            env[tm._vname(t)] = model.get(tm._vname(t), Fraction(0)) or Fraction(0)
    return tm.evaluate(terms, env, exact=True)


def jet_field(j, model, fd, spatial_axes):
    """Taylor polynomial of jet j (coefficients evaluated at model) on fd's grid."""
    ks = list(j.c.keys())
    vals = eval_terms([j.c[k] for k in ks], model)
    X = {spatial_axes[0]: fd.x, spatial_axes[1]: fd.y, spatial_axes[2]: fd.z}
    out = np.zeros(fd.x.shape)
    for k, v in zip(ks, vals):
        if any(a not in X for a in k):
            continue                      # time derivatives are not part of a spatial field
        mono = np.ones(fd.x.shape)
        mult = 1.0
        for a in set(k):
            m = k.count(a)
            mono = mono * X[a] ** m
            mult *= math.factorial(m)
        out = out + float(v) * mono / mult
    return out


def realise(arr, model, fd, spatial_axes):
    """symbolic input array (..., 1,1,1) -> float array (..., N,N,N)."""
    tshape = arr.shape[:-3]
    out = np.zeros(tshape + fd.x.shape)
    for idx in np.ndindex(*tshape):
        e = arr[idx + (0, 0, 0)]
        if isinstance(e, Jet):
            out[idx] = jet_field(e, model, fd, spatial_axes)
        elif isinstance(e, SymReal):
            out[idx] = float(eval_terms([e.t], model)[0])
        else:
            out[idx] = float(e)
    return out


class JetRun:
    """One symbolic execution of AurelCore on jets + everything needed to replay it."""

    def __init__(self, dim, inputs, pre, kwargs=None, attrs=None, fdkind='jet', coords=None,
                 resolutions=None, fd_order=8):
        self.resolutions = resolutions
        self.fd_order = fd_order
        self.dim = dim
        self.inputs = inputs            # {key: object array (...,1,1,1)}
        self.pre = list(pre)
        self.kwargs = dict(kwargs or {})    # may contain SymReal (Lambda)
        self.attrs = dict(attrs or {})      # e.g. kappa -> SymReal
        self.fdkind = fdkind
        self.coords = coords            # optional (x,y,z) jets for fd.x, fd.y, fd.z
        self.spatial_axes = (dim - 3, dim - 2, dim - 1)

    def symbolic_rel(self):
        from aurel.core import AurelCore
        fd = JetFD(self.dim) if self.fdkind == 'jet' else UninterpretedFD()
        if self.coords is not None:
            cs = []
            for c in self.coords:
                a = np.empty((1, 1, 1), dtype=object)
                a[0, 0, 0] = c
                cs.append(a)
            fd.x, fd.y, fd.z = cs
            fd.cartesian_coords = np.array(cs)
        rel = AurelCore(fd, verbose=False, **self.kwargs)
        for k, v in self.attrs.items():
            setattr(rel, k, v)
        for k, v in self.inputs.items():
            rel.data[k] = v
        rel.freeze_data()
        return rel

    def float_rel(self, model, N=13, h=0.05, fd_order=None):
        from aurel.core import AurelCore
        fd = grid_fd(N, h, fd_order or self.fd_order)

        def num(x):
            if isinstance(x, SymReal):
                return float(eval_terms([x.t], model)[0])
            return x
        kw = {k: num(v) for k, v in self.kwargs.items()}
        rel = AurelCore(fd, verbose=False, **kw)
        for k, v in self.attrs.items():
            setattr(rel, k, num(v))
        if self.coords is not None:
            x0 = [float(eval_terms([c.c[()]], model)[0]) for c in self.coords]
            fd.x = fd.x + x0[0]
            fd.y = fd.y + x0[1]
            fd.z = fd.z + x0[2]
            fd.cartesian_coords = np.array([fd.x, fd.y, fd.z])
        for k, v in self.inputs.items():
            rel.data[k] = realise(v, model, fd, self.spatial_axes)
        rel.freeze_data()
        rel._symx = dict(model=model, fd=fd, axes=self.spatial_axes)     # lets `get` lambdas realise helper arguments
        return rel


def float_field(rel, arr):
    """a symbolic helper argument (..., 1,1,1) as the float field of the replay instance `rel`"""
    sx = rel._symx
    return realise(arr, sx['model'], sx['fd'], sx['axes'])


class WatchDict(dict):
    """rel.data replacement that keeps a shallow snapshot of every array at the moment it is stored, so that later
    in-place modification of a cached entry (by any body or helper that got hold of the array) can be detected:
    changed() -> [(key, index, element at caching time, element now)]"""

    def __init__(self, *a, **k):
        super().__init__(*a, **k)
        self._snap = {}
        for key, v in self.items():
            self._take(key, v)

    def _take(self, key, v):
        if isinstance(v, np.ndarray):
            self._snap[key] = v.copy()
        else:
            self._snap.pop(key, None)

    def __setitem__(self, key, v):
        super().__setitem__(key, v)
        self._take(key, v)

    def update(self, *a, **k):
        super().update(*a, **k)
        for key, v in dict(*a, **k).items():
            self._take(key, v)

    def __delitem__(self, key):
        super().__delitem__(key)
        self._snap.pop(key, None)

    def pop(self, key, *d):
        self._snap.pop(key, None)
        return super().pop(key, *d)

    def changed(self):
        out = []
        for key, snap in self._snap.items():
            v = self.get(key)
            if not isinstance(v, np.ndarray) or v.shape != snap.shape:
                continue
            if v.dtype == object:
                for idx in np.ndindex(*v.shape):
                    if v[idx] is not snap[idx]:
                        out.append((key, idx, snap[idx], v[idx]))
            else:
                for idx in zip(*np.nonzero(v != snap)):
                    out.append((key, tuple(int(i) for i in idx), snap[idx], v[idx]))
        return out


def watch(rel):
    rel.data = WatchDict(rel.data)
    return rel


def center(a):
    a = np.asarray(a)
    n = a.shape[-1] // 2
    return a[..., n, n, n]


_REL_CACHE = {}


def replay_jet(run, ob, model, resolutions=None, rtol=1e-6, history=None):
    """Run the real code with floats at two resolutions; the mismatch with the oracle value must
    stay above tolerance and must not shrink like a discretisation error."""
    resolutions = resolutions or getattr(run, 'resolutions', None) or ((13, 0.02), (13, 0.01))
    oracle_v = float(eval_terms([ob.oracle], model)[0])
    impl_dag = float(eval_terms([ob.impl], model)[0])
    diffs = []
    vals = []
    mkey = hash(tuple(sorted((k, str(v)) for k, v in model.items())))
    for N, h in resolutions:
        ck = (id(run), mkey, N, h)
        rel = None if (ob.meta.get('fresh_rel') or history is not None) else _REL_CACHE.get(ck)
        if history is not None:
            # the symbolic run read every obligation of the block from ONE instance after all of them had been
            # requested: reproduce that request history (a cached entry modified in place by a later request)
            rel = run.float_rel(model, N=N, h=h)
            with np.errstate(all='ignore'):
                for o in history:
                    if o.get is not None and o.meta.get('run', run) is run:
                        try:
                            o.get(rel)
                        except Exception:  # noqa
                            pass
        elif ob.meta.get('fresh_rel'):
            rel = run.float_rel(model, N=N, h=h)          # history-sensitive obligation: its own instance
        elif rel is None:
            if len(_REL_CACHE) > 8:
                _REL_CACHE.clear()
            rel = run.float_rel(model, N=N, h=h)
            _REL_CACHE[ck] = rel
        with np.errstate(all='ignore'):
            v = ob.get(rel)
        v = float(np.real(center(v)))
        vals.append(v)
        diffs.append(abs(v - oracle_v))
    scale = max(abs(oracle_v), abs(vals[-1]), 1e-12)
    reproduces = (diffs[-1] > rtol * scale) and (diffs[-1] > 0.25 * diffs[0] or diffs[-1] > 1e-3 * scale)
    dag_agrees = abs(vals[-1] - impl_dag) <= 1e-4 * max(abs(impl_dag), abs(vals[-1])) + 1e-6
    return dict(oracle=oracle_v, impl_dag=impl_dag, code_values=vals, diffs=diffs,
                reproduces=bool(reproduces), dag_matches_code=bool(dag_agrees))


def random_model(vars_, pre, rng, tries=200, lo=-1, hi=1, den=8, fixed=None):
    """Random small rationals for the variables, rejected until pre holds (translator
    validation and generic slice points)."""
    names = [v.val for v in vars_]
    for _ in range(tries):
        env = {n: Fraction(rng.randint(lo * den, hi * den), den) for n in names}
        if fixed:
            env.update(fixed)
        try:
            ok = all(tm.evaluate([p], env)[0] for p in pre)
        except (ZeroDivisionError, KeyError, ValueError):
            ok = False
        if ok:
            return env
    return None


# --------------------------------------------------------------------------- evidence
def source_digest(paths):
    out = {}
    for p in paths:
        fp = os.path.join(REPO, p)
        try:
            with open(fp, 'rb') as f:
                out[p] = hashlib.sha1(f.read()).hexdigest()[:12]
        except OSError:
            out[p] = 'missing'
    return out


class FuncTrace:
    """Records which aurel functions execute during the symbolic runs (sys.setprofile)."""

    def __init__(self):
        self.seen = set()
        self._root = os.path.join(REPO, 'src', 'aurel')

    def _prof(self, frame, event, arg):
        if event == 'call':
            fn = frame.f_code.co_filename
            if fn.startswith(self._root):
                self.seen.add(os.path.relpath(fn, self._root) + ':' + frame.f_code.co_name)

    def __enter__(self):
        sys.setprofile(self._prof)
        return self

    def __exit__(self, *a):
        sys.setprofile(None)


def load_known(pid):
    path = os.path.join(VERIF, 'known_findings.json')
    try:
        with open(path) as f:
            data = json.load(f)
    except OSError:
        return [], []
    finds = [e for e in data.get('findings', []) if e['property'] == pid]
    fixed = [e for e in data.get('fixed', []) if e['property'] == pid]
    return finds, fixed


class Report:
    """Collects obligations / verdicts for one check run, writes evidence, decides exit code."""

    def __init__(self, pid, tier, seed=0):
        self.pid = pid
        self.tier = tier
        self.seed = seed
        self.t0 = time.time()
        self.obs = []              # dicts
        self.violations = []       # (key, description, replay path)
        self.known_hits = []
        self.inconclusive = []
        self.bounds = {}
        self.assumptions = []
        self.stubs = []
        self.functions = set()
        self.validation = {'translator_checks': 0, 'translator_failures': 0}
        self.vacuity = []
        self.notes = []
        self.extra = {}
        self.findings, self.fixed = load_known(pid)
        self.harness_errors = []

    # -- recording ---------------------------------------------------------------
    def record(self, name, verdict, seconds=0.0, backend='z3old', sha='', group=None, trivial=False,
               kind='identity', detail=None):
        self.obs.append(dict(name=name, verdict=verdict, seconds=seconds, backend=backend,
                             sha=sha, group=group or name, trivial=trivial, kind=kind,
                             detail=detail))

    def record_ob(self, ob, kind='identity'):
        r = ob.result
        self.record(ob.name, r['verdict'], r['seconds'], r.get('backend', 'z3old'), r['sha'],
                    ob.group, r.get('trivial', False), kind)

    def known(self, key):
        for e in self.findings:
            if e['key'] == key:
                return e
        return None

    def violation(self, key, what, replay_path):
        e = self.known(key)
        if e is not None:
            if key not in [k for k, _ in self.known_hits]:
                self.known_hits.append((key, what))
        elif key not in [k for k, _, _ in self.violations]:
            self.violations.append((key, what, replay_path))

    def inconc(self, name, why):
        self.inconclusive.append((name, why))

    def write_replay(self, key, payload):
        d = os.environ.get('VERIF_REPLAY_DIR') or os.path.join(VERIF, 'replays')
        os.makedirs(d, exist_ok=True)
        safe = ''.join(ch if ch.isalnum() or ch in '-_.' else '_' for ch in key)
        path = os.path.join(d, f"{self.pid}_{safe}.json")
        with open(path, 'w') as f:
            json.dump(payload, f, indent=1, default=str)
        return path

    # -- output --------------------------------------------------------------------
    def finish(self, level='model_checking', rule=None, trusted=None):
        wall = time.time() - self.t0
        nontrivial = [o for o in self.obs if not o['trivial']]
        distinct = len({o['sha'] for o in nontrivial if o['sha'] not in ('', 'syntactic', 'trivial')}) + int(getattr(self, 'distinct_extra', 0))
        discharged = sum(1 for o in self.obs if o['verdict'] in ('unsat', 'holds'))
        samples = []
        for o in nontrivial[:3] + nontrivial[-3:]:
            samples.append({k: o[k] for k in ('name', 'verdict', 'seconds', 'backend', 'sha')})
        if not samples:
            samples = [dict(name='(none)', verdict='n/a')]
        cov = dict(
            evaluations=max(1, solver.STATS.queries),
            distinct_nontrivial=max(distinct, 0),
            rule=rule or getattr(self, 'rule', None) or ("one evaluation = one SMT query discharged by a solver subprocess; "
                          "distinct_nontrivial = number of distinct obligation scripts (by SHA-1 of "
                          "the SMT-LIB text) that are not syntactically trivial after term "
                          "normalisation"),
            samples=samples,
            obligations=len(self.obs),
            discharged=discharged,
            checker_cmd=f"./check {self.pid} --tier {self.tier}",
            trusted_base=trusted or ["symx term DAG/SMT printer", "numpy object-array mechanics",
                                     "z3 4.8.12 / z3 5.1.0", "oracle definitions in symx/oracle.py"],
            solver=solver.STATS.as_dict(),
            bounds=self.bounds,
            functions_encoded=sorted(self.functions),
            stubs=self.stubs,
            vacuity_witnesses=self.vacuity,
            validation=self.validation,
            groups=self._groups(),
            known_findings_hit=[k for k, _ in self.known_hits],
            inconclusive=[list(x) for x in self.inconclusive],
            notes=self.notes,
            exhaustive=False,
            decided_syntactically=sum(1 for o in self.obs if o['trivial']),
            decided_by_solver=sum(1 for o in self.obs if not o['trivial']),
        )
        cov.update(self.extra)
        ev = dict(property_id=self.pid, tier=self.tier, seed=int(self.seed), level=level,
                  coverage=cov, assumptions=self.assumptions, wall_s=round(wall, 2),
                  violations=len(self.violations))
        evdir = os.environ.get('VERIF_EVIDENCE_DIR') or os.path.join(VERIF, 'evidence')
        os.makedirs(evdir, exist_ok=True)
        with open(os.path.join(evdir, f'{self.pid}.json'), 'w') as f:
            json.dump(ev, f, indent=1, default=str)
        for key, what in self.known_hits:
            print(f"KNOWN-FINDING: property={self.pid} {key}: {what}")
        for key, what, path in self.violations:
            print(f"VIOLATION property={self.pid} replay={path}")
            print(f"  {key}: {what}")
        for e in self.harness_errors:
            print(f"HARNESS-ERROR: {e}")
        if self.violations:
            # every VIOLATION line above was replayed on the real code; other counterexamples that did not reproduce (harness
            # errors) do not take that back
            return EXIT_VIOLATION
        if self.harness_errors:
            return EXIT_HARNESS
        if self.inconclusive:
            for n, w in self.inconclusive:
                print(f"INCONCLUSIVE: {n}: {w}")
            return EXIT_INCONCLUSIVE
        print(f"OK property={self.pid} tier={self.tier} obligations={len(self.obs)} "
              f"discharged={discharged} queries={solver.STATS.queries} "
              f"solver_s={solver.STATS.seconds:.1f} wall_s={wall:.1f}")
        return EXIT_OK

    def _groups(self):
        g = {}
        for o in self.obs:
            d = g.setdefault(o['group'], {'n': 0, 'unsat': 0, 'sat': 0, 'unknown': 0, 'max_s': 0.0})
            d['n'] += 1
            v = o['verdict'] if o['verdict'] in ('unsat', 'sat', 'unknown') else (
                'unsat' if o['verdict'] == 'holds' else 'unknown')
            d[v] += 1
            d['max_s'] = max(d['max_s'], o['seconds'])
        return g


# --------------------------------------------------------------------------- ladder
def pinned_query(ob, model):
    """pre & impl != oracle & (vars = model): the solver confirms a candidate counterexample."""
    env = {}
    for v in tm.free_vars([ob.impl, ob.oracle] + ob.pre):
        if v.val in model and model[v.val] is not None:
            env[v.val] = model[v.val]
    # substituted (not conjoined as equalities): constants fold, exp/roots of constants get their value or enclosure
    return tm.substitute(ob.query(), env)


def prescreen(obs, sampler, rng, n_models=2):
    """Evaluate impl/oracle at random admissible rational points.  Returns {index: model} of
    candidate counterexamples (to be confirmed by the solver with a pinned query)."""
    cands = {}
    models = []
    for _ in range(n_models):
        m = sampler(rng)
        if m is not None:
            models.append(m)
    for i, ob in enumerate(obs):
        for m in models:
            try:
                a, b = eval_terms([ob.impl, ob.oracle], m)
            except (ZeroDivisionError, ValueError, OverflowError):
                continue
            if isinstance(a, float) or isinstance(b, float):
                if not (math.isfinite(a) and math.isfinite(b)):
                    continue
                differ = abs(a - b) > 1e-7 * max(1.0, abs(a), abs(b))
            else:
                differ = a != b
            if ob.tol is not None:
                differ = abs(float(a) - float(b)) > ob.tol
            if differ:
                cands[i] = m
                break
    return cands, models


def solve_ladder(obs, rungs, sampler=None, rng=None, workers=None, calib=None, log=None):
    """rungs: list of dict(name=..., envs=[None] | [env, ...], timeout=s, backend=...).
    envs == [None] is full generality; otherwise each env is a slice (all must be unsat).
    Sets ob.result = dict(verdict, rung, seconds, sha, model, backend, trivial)."""
    rng = rng or random.Random(0)
    calib = calib or {}
    pending = []
    for i, ob in enumerate(obs):
        if ob.tol is None and ob.impl is ob.oracle:
            ob.result = dict(verdict='unsat', rung='syntactic', seconds=0.0, sha='syntactic',
                             model={}, backend='none', trivial=True)
        else:
            pending.append(i)
    # 1. candidate counterexamples from random evaluation, confirmed by the solver
    if sampler is not None and pending:
        cands, models = prescreen([obs[i] for i in pending], sampler, rng)
        jobs = [(pending[k], pinned_query(obs[pending[k]], m)) for k, m in cands.items()]
        res = solver.check_many(jobs, workers=workers, timeout_s=30)
        for i, r in res.items():
            if r['verdict'] == 'sat':
                r.update(rung='pinned-candidate', backend='z3old')
                # complete the model with the sampled values
                full = dict(cands[pending.index(i)])
                full.update({k: v for k, v in r['model'].items() if v is not None})
                r['model'] = full
                obs[i].result = r
        pending = [i for i in pending if obs[i].result is None]
    # 2. ladder
    for ri, rung in enumerate(rungs):
        if not pending:
            break
        todo = [i for i in pending if calib.get(obs[i].name, 0) <= ri]
        jobs = []
        for i in todo:
            ob = obs[i]
            for si, env in enumerate(rung['envs']):
                if env is None:
                    q = ob.query()
                else:
                    names = {v.val for v in tm.free_vars([ob.impl, ob.oracle] + ob.pre)}
                    e = {k: v for k, v in env.items() if k in names}
                    impl, orc, *pre = tm.substitute([ob.impl, ob.oracle] + ob.pre, e)
                    q = Ob(ob.name, impl, orc, pre, tol=ob.tol).query()
                jobs.append(((i, si), q))
        res = solver.check_many(jobs, workers=workers, timeout_s=rung['timeout'],
                                backend=rung.get('backend', 'z3old'))
        for i in todo:
            rs = [res[(i, si)] for si in range(len(rung['envs']))]
            secs = sum(r['seconds'] for r in rs)
            sat = [(si, r) for si, r in enumerate(rs) if r['verdict'] == 'sat']
            if sat:
                si, r = sat[0]
                model = dict(rung['envs'][si] or {})
                model.update({k: v for k, v in r['model'].items() if v is not None})
                obs[i].result = dict(verdict='sat', rung=rung['name'], seconds=secs, sha=r['sha'],
                                     model=model, backend=rung.get('backend', 'z3old'), trivial=False)
            elif all(r['verdict'] == 'unsat' for r in rs):
                obs[i].result = dict(verdict='unsat', rung=rung['name'], seconds=secs,
                                     sha=rs[0]['sha'], model={}, backend=rung.get('backend', 'z3old'),
                                     trivial=all(r.get('trivial') for r in rs))
            if log:
                log(f"  rung {rung['name']}: {obs[i].name} -> "
                    f"{[r['verdict'] for r in rs]} {secs:.1f}s")
        pending = [i for i in pending if obs[i].result is None]
    for i in pending:
        obs[i].result = dict(verdict='unknown', rung='none', seconds=0.0, sha='', model={},
                             backend='none', trivial=False)
    return obs
