"""Entry point: python -m checks.run <ID> --tier quick|thorough [--replay PATH] [--calibrate]"""
import argparse
import importlib
import os
import sys
import traceback

HERE = os.path.dirname(os.path.abspath(__file__))
VERIF = os.path.dirname(HERE)
sys.path.insert(0, VERIF)
REPO = os.environ.get('AUREL_REPO', '/repo')
sys.path.insert(0, os.path.join(REPO, 'src'))
os.environ.setdefault('AUREL_VERIF', '1')


def main():
    ap = argparse.ArgumentParser()
    ap.add_argument('pid')
    ap.add_argument('--tier', default=os.environ.get('VERIF_TIER', 'quick'))
    ap.add_argument('--replay')
    ap.add_argument('--calibrate', action='store_true')
    ap.add_argument('--workers', type=int, default=int(os.environ.get('SYMX_WORKERS', os.cpu_count() or 4)))
    a = ap.parse_args()
    seed = int(os.environ.get('VERIF_SEED', '0') or 0)
    from symx.harness import Report, EXIT_HARNESS
    mod = importlib.import_module('checks.' + a.pid.lower())
    if a.replay:
        return mod.replay(a.replay) if hasattr(mod, 'replay') else generic_replay(mod, a.replay)
    report = Report(a.pid.upper(), a.tier, seed)
    try:
        mod.main(report, a.tier, seed, a.workers, **({'calibrate': True} if a.calibrate else {}))
    except Exception:
        traceback.print_exc()
        report.harness_errors.append('exception in harness: ' + traceback.format_exc().splitlines()[-1])
    code = report.finish()
    return code


def generic_replay(mod, path):
    import json
    with open(path) as f:
        payload = json.load(f)
    print(json.dumps(payload, indent=1)[:4000])
    if hasattr(mod, 'replay_payload'):
        return mod.replay_payload(payload)
    return 0


if __name__ == '__main__':
    sys.exit(main())
