r"""C18 - simulation catalogues and name parsing are faithful and stable across calls.

(a) dataset-key / file-name regexes: regular-language premises decided by z3 (every name the naming
    scheme produces is in the language of the regex; every delimiter-terminated run cannot absorb
    its delimiter), from which Python's leftmost-greedy parse is the intended one; the argument is
    differential-tested against the real `re` on random names every run.
(b1) iterations.txt dispatch: the line templates are extracted from the saveprint(...) calls in
    iterations()'s AST and the dispatch tests from read_iterations()'s / iterations()'s AST; for every
    template T and every test it is not meant to hit, z3 decides L(T) /\ L(test) = {} with the
    simulation name / path ranging over all strings without newline.  A witness is replayed on a
    real temporary simulation directory.
(b2, c, d) round trips of the catalogue files on generated directory contents (concrete executions).
"""
import ast
import inspect
import itertools
import json
import os
import random
import re
import shutil
import tempfile
import time
import textwrap

import numpy as np

from symx import solver
from symx.harness import FuncTrace, source_digest

PID = 'C18'
FILES = ['src/aurel/reading.py']


def z3mod():
    import z3
    return z3


# ------------------------------------------------------------------------------ (a) regex premises
def cls(z3, spec):
    """character class from a list of ranges / single chars"""
    parts = []
    for s in spec:
        parts.append(z3.Range(s[0], s[1]) if len(s) == 2 else z3.Re(s))
    return z3.Union(*parts) if len(parts) > 1 else parts[0]


def regex_premises(report):
    z3 = z3mod()
    from aurel import reading
    S = z3.StringSort()
    any_ch = z3.AllChar(z3.ReSort(S))
    digit = z3.Range('0', '9')
    numeral = z3.Union(z3.Re('0'), z3.Concat(z3.Range('1', '9'), z3.Star(digit)))
    space_like = z3.Union(z3.Re(' '), z3.Re('\t'), z3.Re('\n'), z3.Re('\r'), z3.Re('\x0b'), z3.Re('\x0c'))
    colon = z3.Re(':')
    not_colon = z3.Intersect(any_ch, z3.Complement(colon))
    non_space = z3.Intersect(any_ch, z3.Complement(space_like))
    thorn = z3.Plus(z3.Intersect(not_colon, non_space))
    variable = z3.Plus(non_space)
    opt = lambda r: z3.Union(z3.Re(''), r)                          # noqa: E731
    # what the naming scheme emits
    scheme = z3.Concat(thorn, z3.Re('::'), variable, z3.Re(' it='), numeral, z3.Re(' tl='), numeral,
                       opt(z3.Re(' m=0')), opt(z3.Concat(z3.Re(' rl='), numeral)), opt(z3.Concat(z3.Re(' c='), numeral)))
    # the regex of the code, transcribed from its pattern string (checked below against the source)
    expected_pattern = r"([^:]+)::(\S+) it=(\d+) tl=(\d+)( m=0)?( rl=(\d+))?( c=(\d+))?"
    rx = z3.Concat(z3.Plus(not_colon), z3.Re('::'), z3.Plus(non_space), z3.Re(' it='), z3.Plus(digit), z3.Re(' tl='), z3.Plus(digit),
                   opt(z3.Re(' m=0')), opt(z3.Concat(z3.Re(' rl='), z3.Plus(digit))), opt(z3.Concat(z3.Re(' c='), z3.Plus(digit))))
    if reading.rx_key.pattern != expected_pattern:
        report.violation('rx_key changed', f"rx_key pattern is {reading.rx_key.pattern!r}; the premises are stated for "
                         f"{expected_pattern!r}", report.write_replay('rx_key', dict(pattern=reading.rx_key.pattern)))
    s = z3.String('s')

    def empty(name, lang, group='dataset-key regex premises (regular-language queries)'):
        sol = z3.Solver()
        sol.set('timeout', 60000)
        sol.add(z3.InRe(s, lang))
        _t0 = time.time()
        r = sol.check()
        _dt = time.time() - _t0
        v = str(r) if str(r) in ('sat', 'unsat') else 'unknown'
        solver.STATS.add('z3py-strings', v, _dt)
        wit = None
        if v == 'sat':
            wit = sol.model()[s].as_string()
        report.record(name, v, backend='z3py-strings', sha=str(abs(hash(name)) % 10 ** 9), group=group)
        return v, wit
    # P1: every scheme name is matched in full by the regex
    v, wit = empty('scheme names are in L(rx_key)', z3.Intersect(scheme, z3.Complement(rx)))
    if v == 'sat':
        report.violation('rx_key misses a valid name', f"valid key {wit!r} is not matched", report.write_replay('rx_key_miss', dict(key=wit)))
    elif v == 'unknown':
        report.inconc('scheme names are in L(rx_key)', 'string query not settled')
    # P2: a delimiter-terminated run cannot contain the first character of its delimiter
    for nm, run, delim in (('thorn run [^:]+ vs ":"', z3.Plus(not_colon), ':'), ('variable run \\S+ vs " "', z3.Plus(non_space), ' '),
                           ('digit run vs " "', z3.Plus(digit), ' ')):
        v, wit = empty(f'{nm}: run cannot contain its delimiter', z3.Intersect(run, z3.Concat(z3.Full(z3.ReSort(S)), z3.Re(delim), z3.Full(z3.ReSort(S)))))
        if v != 'unsat':
            report.inconc(nm, f'premise not established ({v}, {wit!r})')
    # P3: the component languages of the scheme are inside the classes of the regex
    for nm, comp, klass in (('thorn', thorn, z3.Plus(not_colon)), ('variable', variable, z3.Plus(non_space)), ('numeral', numeral, z3.Plus(digit))):
        v, wit = empty(f'{nm} language inside its class', z3.Intersect(comp, z3.Complement(klass)))
        if v != 'unsat':
            report.inconc(nm, f'premise not established ({v})')
    # P4: after a numeral the next emitted character is never a digit (so the greedy digit run stops where intended)
    v, wit = empty('optional groups start with a space', z3.Intersect(z3.Union(z3.Re(' m=0'), z3.Re(' rl='), z3.Re(' c=')), z3.Concat(digit, z3.Full(z3.ReSort(S)))))
    if v != 'unsat':
        report.inconc('optional groups', 'premise not established')

    # differential test of the (trusted) greedy-parse argument against the real re
    rng = random.Random(0)
    alpha = 'abcXYZ_09[]-.:=() '
    bad = []
    for _ in range(5000):
        th = ''.join(rng.choice('abcXYZ_09[]-.=()') for _ in range(rng.randint(1, 6)))
        va = ''.join(rng.choice('abcXYZ_09[]-.:=()') for _ in range(rng.randint(1, 8)))
        it_, tl = rng.randint(0, 10 ** rng.randint(0, 7)), rng.randint(0, 3)
        m0, rl, c = rng.random() < .5, (rng.randint(0, 12) if rng.random() < .7 else None), (rng.randint(0, 300) if rng.random() < .6 else None)
        key = f"{th}::{va} it={it_} tl={tl}" + (' m=0' if m0 else '') + (f' rl={rl}' if rl is not None else '') + (f' c={c}' if c is not None else '')
        got = reading.parse_hdf5_key(key)
        want = dict(thorn=th, variable=va, it=it_, tl=tl, m=0 if m0 else None, rl=rl, c=c)
        if got is None or any(got[k] != v_ for k, v_ in want.items()) or got['combined variable name'] != th + '::' + va:
            bad.append((key, got))
    report.validation['translator_checks'] += 5000
    report.record('parse_hdf5_key inverts 5000 random scheme names (differential test of the greedy-parse argument)',
                  'holds' if not bad else 'sat', group='concrete executions', kind='concrete', trivial=True)
    if bad:
        report.violation('parse_hdf5_key', f"key {bad[0][0]!r} parsed as {bad[0][1]}", report.write_replay('parse_key', dict(key=bad[0][0])))
    # file names, with arbitrary directory prefixes
    badf = []
    for _ in range(3000):
        thorn_ = ''.join(rng.choice('abcXYZ_09') for _ in range(rng.randint(1, 6))) if rng.random() < .5 else None
        var = ''.join(rng.choice('abcXYZ_09[]') for _ in range(rng.randint(1, 6)))
        xyz1, xyz2 = rng.random() < .4, rng.random() < .3
        chunk = rng.randint(0, 999) if rng.random() < .5 else None
        fname = (f'{thorn_}-' if thorn_ else '') + var + ('.xyz' if xyz1 else '') + (f'.file_{chunk}' if chunk is not None else '') + ('.xyz' if xyz2 else '') + '.h5'
        prefix = rng.choice(['', '/a/b/', 'rel/dir/', '/x.file_7.h5/', '/checkpoint.chkpt.it_3.h5/', '/odd name-with -> rl = 2/'])
        got = reading.parse_h5file(prefix + fname)
        if fname.startswith('checkpoint'):
            continue
        ok = (got is not None and got.get('thorn') == thorn_ and got.get('variable_or_group') == var and got.get('chunk_number') == chunk
              and got.get('group_file') == (thorn_ is not None))
        if not ok:
            badf.append((prefix + fname, got))
    for _ in range(500):
        it_ = rng.randint(0, 10 ** 6)
        chunk = rng.randint(0, 99) if rng.random() < .5 else None
        fname = f'checkpoint.chkpt.it_{it_}' + (f'.file_{chunk}' if chunk is not None else '') + '.h5'
        got = reading.parse_h5file(rng.choice(['', '/p/q/']) + fname)
        if got != {'iteration': it_, 'chunk_number': chunk}:
            badf.append((fname, got))
    report.record('parse_h5file inverts 3500 random file names under arbitrary directory prefixes', 'holds' if not badf else 'sat',
                  group='concrete executions', kind='concrete', trivial=True)
    if badf:
        report.violation('parse_h5file', f"file {badf[0][0]!r} parsed as {badf[0][1]}", report.write_replay('parse_file', dict(file=badf[0][0])))


# ------------------------------------------------------------------------------ (b1) dispatch
def fstring_template(node):
    """AST of a string expression -> list of parts: literal str or ('field', kind)"""
    if isinstance(node, ast.Constant) and isinstance(node.value, str):
        return [node.value]
    if isinstance(node, ast.BinOp) and isinstance(node.op, ast.Add):
        return fstring_template(node.left) + fstring_template(node.right)
    if isinstance(node, ast.JoinedStr):
        out = []
        for v in node.values:
            if isinstance(v, ast.Constant):
                out.append(v.value)
            else:
                out.append(('field', ast.unparse(v.value)))
        return out
    if isinstance(node, ast.Call) and ast.unparse(node.func) == 'str':
        return [('field', ast.unparse(node.args[0]))]
    return [('field', ast.unparse(node))]


def extract_templates():
    from aurel import reading
    tree = ast.parse(textwrap.dedent(inspect.getsource(reading.iterations)))
    temps = []
    for n in ast.walk(tree):
        if isinstance(n, ast.Call) and ast.unparse(n.func) == 'saveprint' and len(n.args) >= 2:
            temps.append(fstring_template(n.args[1]))
    return temps


def extract_dispatch():
    """[(where, kind, needle, handles)] kind in {'contains', 'startswith'}"""
    from aurel import reading
    out = []
    tree = ast.parse(textwrap.dedent(inspect.getsource(reading.read_iterations)))

    def tests_of(expr):
        res = []
        for n in ast.walk(expr):
            if isinstance(n, ast.Compare) and len(n.ops) == 1 and isinstance(n.ops[0], ast.In) and isinstance(n.left, ast.Constant) \
                    and isinstance(n.left.value, str) and ast.unparse(n.comparators[0]) in ('li', 'line'):
                res.append(('contains', n.left.value))
            if isinstance(n, ast.Call) and isinstance(n.func, ast.Attribute) and n.func.attr == 'startswith' \
                    and ast.unparse(n.func.value) in ('li', 'line') and isinstance(n.args[0], ast.Constant):
                res.append(('startswith', n.args[0].value))
        return res
    for n in ast.walk(tree):
        if isinstance(n, ast.For) and ast.unparse(n.target) == 'li':
            chain = []
            for stmt in n.body:
                node = stmt
                while isinstance(node, ast.If):
                    is_skip = any(isinstance(b, ast.Continue) for b in node.body)
                    chain.append((tests_of(node.test), is_skip, isinstance(node.test, ast.BoolOp) and isinstance(node.test.op, ast.Or)))
                    node = node.orelse[0] if (len(node.orelse) == 1 and isinstance(node.orelse[0], ast.If)) else None
            out.append(('read_iterations', chain))
    tree2 = ast.parse(textwrap.dedent(inspect.getsource(reading.iterations)))
    for n in ast.walk(tree2):
        if isinstance(n, ast.ListComp) and 'restart' in ast.unparse(n):
            for g in n.generators:
                for cond in g.ifs:
                    out.append(('iterations.restarts_done', [(tests_of(cond), False, False)]))
    return out


def template_regex(z3, parts):
    S = z3.StringSort()
    digit = z3.Range('0', '9')
    numeral = z3.Union(z3.Re('0'), z3.Concat(z3.Range('1', '9'), z3.Star(digit)))
    anyline = z3.Star(z3.Intersect(z3.AllChar(z3.ReSort(S)), z3.Complement(z3.Union(z3.Re('\n'), z3.Re('\r')))))
    name_chars = z3.Union(z3.Range('a', 'z'), z3.Range('A', 'Z'), digit, z3.Re('_'), z3.Re('['), z3.Re(']'), z3.Re(':'))
    listlike = z3.Concat(z3.Re('['), z3.Star(z3.Union(name_chars, z3.Re("'"), z3.Re(','), z3.Re(' '))), z3.Re(']'))
    regs = []
    has_path = False
    for p in parts:
        if isinstance(p, str):
            regs.append(z3.Re(p))
        else:
            f = p[1]
            if any(k in f for k in ('datapath', 'file_for_it', 'it_filename')):
                regs.append(anyline)           # a path: any characters except line breaks
                has_path = True
            elif any(k in f for k in ('aurel_vars_available', 'checkpoint_its', 'allits')) and 'np.m' not in f:
                regs.append(listlike)
            elif f.strip() in ('rlkey',):
                regs.append(z3.Concat(z3.Re('rl = '), numeral))
            elif f.strip() in ('itkey',):
                regs.append(z3.Union(z3.Concat(z3.Re('it = np.arange('), numeral, z3.Re(', '), numeral, z3.Re(', '), numeral, z3.Re(')')),
                                     z3.Concat(z3.Re('it = ['), numeral, z3.Re(']'))))
            else:
                regs.append(numeral)
    return (z3.Concat(*regs) if len(regs) > 1 else regs[0]), has_path


def meant_for(parts, needle):
    """a template is meant to hit a test iff the needle occurs in its literal text"""
    lit = ''.join(p if isinstance(p, str) else ('rl = 0' if p[1].strip() == 'rlkey' else 'it = 0' if p[1].strip() == 'itkey' else '\0') for p in parts)
    return needle in lit


def dispatch_disjointness(report):
    z3 = z3mod()
    S = z3.StringSort()
    temps = extract_templates()
    disp = extract_dispatch()
    report.extra['line_templates'] = [''.join(p if isinstance(p, str) else '{' + p[1] + '}' for p in t) for t in temps]
    report.extra['dispatch_tests'] = [(w, [(t, sk) for t, sk, _ in ch]) for w, ch in disp]
    if len(temps) < 5 or not disp:
        report.harness_errors.append(f'could not extract templates/dispatch ({len(temps)}, {len(disp)})')
        return
    full = z3.Full(z3.ReSort(S))
    s = z3.String('line')
    for where, chain in disp:
        for ti, parts in enumerate(temps):
            treg, has_path = template_regex(z3, parts)
            tname = report.extra['line_templates'][ti]
            # walk the if/elif chain: a line reaches test k only if it failed the tests before it
            prior_hit = None
            for tests, is_skip, is_or in chain:
                regs = []
                for kind, needle in tests:
                    regs.append(z3.Concat(full, z3.Re(needle), full) if kind == 'contains' else z3.Concat(z3.Re(needle), full))
                if not regs:
                    continue
                hit = (z3.Union(*regs) if len(regs) > 1 else regs[0]) if is_or or len(regs) == 1 else z3.Intersect(*regs)
                needles = [n for _, n in tests]
                intended = is_skip and has_path or (not is_skip and all(meant_for(parts, n) for n in needles))
                reach = hit if prior_hit is None else z3.Intersect(hit, z3.Complement(prior_hit))
                prior_hit = hit if prior_hit is None else z3.Union(prior_hit, hit)
                if intended:
                    continue
                name = f"{where}: line '{tname[:50]}' cannot be taken for {needles}"
                sol = z3.Solver()
                sol.set('timeout', 60000)
                sol.add(z3.InRe(s, z3.Intersect(treg, reach)))
                _t0 = time.time()
                r = sol.check()
                _dt = time.time() - _t0
                v = str(r) if str(r) in ('sat', 'unsat') else 'unknown'
                solver.STATS.add('z3py-strings', v, _dt)
                report.record(name, v, backend='z3py-strings', sha=str(abs(hash(name)) % 10 ** 9), group='iterations.txt dispatch disjointness (regular-language queries)')
                if v == 'unknown':
                    report.inconc(name, 'string query not settled')
                elif v == 'sat':
                    line = sol.model()[s].as_string()
                    rp = replay_dispatch(line, tname)
                    key = f"{where}: a line that quotes a name is taken for the {needles} line"
                    if rp['reproduces']:
                        report.violation(key, f"a line {line!r} written by iterations() is taken for the {needles} line; "
                                         f"real run with simulation name {rp['simname']!r}: {rp['error']}",
                                         report.write_replay(key, dict(line=line, template=tname, replay=rp)))
                    else:
                        report.harness_errors.append(f"{name}: witness line {line!r} did not reproduce: {rp}")


def make_sim(root, simname, restarts=2, ghosts=1):
    """a tiny but real ET-style simulation directory (one file per variable, one chunk)"""
    import h5py
    for r in range(restarts):
        d = os.path.join(root, simname, f'output-{r:04d}', simname)
        os.makedirs(d, exist_ok=True)
        for v in ('alp', 'rho'):
            with h5py.File(os.path.join(d, v + '.h5'), 'w') as f:
                for it in range(4 * r, 4 * r + 4, 2):
                    for rl in (0, 1):
                        ds = f.create_dataset(f"{'ADMBASE' if v == 'alp' else 'HYDROBASE'}::{v} it={it} tl=0 rl={rl}", data=np.ones((5, 5, 5)) * it)
                        ds.attrs['cctk_nghostzones'] = np.array([ghosts] * 3, dtype=np.int32)
                        ds.attrs['iorigin'] = np.array([0, 0, 0], dtype=np.int32)
                        ds.attrs['time'] = 0.5 * it
        if r != 1:            # restart 1 has 3D data but no checkpoint file
            with open(os.path.join(d, 'checkpoint.chkpt.it_%d.h5' % (4 * r)), 'wb') as f:
                f.write(b'')


STRIDED = [(0, 256, 64), (256, 512, 32), (512, 768, 32), (768, 1024, 32)]
GROUPED = {'alp.h5': ('ADMBASE', ['alp']), 'thorna-scalars.h5': ('THORNA', ['sa1', 'sa2']), 'thornb-scalars.h5': ('THORNB', ['sb1', 'sb2'])}


def make_sim_strided(root, simname, restarts=3):
    """second directory shape: the output stride changes between restart 0 and 1 and stays afterwards; two thorns write grouped
    files with the same group name (not one of the groups aurel knows)"""
    import h5py
    for r in range(restarts):
        lo, hi, st = STRIDED[r]
        d = os.path.join(root, simname, f'output-{r:04d}', simname)
        os.makedirs(d, exist_ok=True)
        for fn, (thorn, vs) in GROUPED.items():
            with h5py.File(os.path.join(d, fn), 'w') as f:
                for it in range(lo, hi + 1, st):
                    for v in vs:
                        ds = f.create_dataset(f"{thorn}::{v} it={it} tl=0 rl=0", data=np.ones((5, 5, 5)) * it)
                        ds.attrs['cctk_nghostzones'] = np.array([1] * 3, dtype=np.int32)
                        ds.attrs['iorigin'] = np.array([0, 0, 0], dtype=np.int32)
                        ds.attrs['time'] = 0.5 * it


# third directory shape: a restart with a single iteration, then a range that neither contains nor adjoins it, then a
# restart continuing with the same stride; one thorn writes two grouped files whose groups aurel does not know
SINGLE = [(0, 0, 2), (8, 12, 2), (14, 18, 2)]
GROUPED3 = {'alp.h5': ('ADMBASE', ['alp']), 'mythorn-grpa.h5': ('MYTHORN', ['ua1', 'ua2']), 'mythorn-grpb.h5': ('MYTHORN', ['ub1', 'ub2'])}


def single_round_trip(simname):
    """-> list of problems for the third directory shape (real functions, temporary directory)"""
    from aurel import reading
    import io
    import contextlib
    global STRIDED, GROUPED
    bad = []
    root = tempfile.mkdtemp(prefix='c18t_')
    saved = STRIDED, GROUPED
    STRIDED, GROUPED = SINGLE, GROUPED3
    try:
        make_sim_strided(root + '/', simname, restarts=3)
        param = {'simname': simname, 'simpath': root + '/'}
        with contextlib.redirect_stdout(io.StringIO()):
            try:
                mem = reading.iterations(param, skip_last=False, verbose=False)
                snap = normal(mem)
                again = reading.iterations(param, skip_last=False, verbose=False)
                parsed = reading.read_iterations(param, skip_last=False, verbose=False)
                cont = reading.get_content(param, restart=1, verbose=False)
                cont_fresh = reading.get_content(param, restart=1, verbose=False, overwrite=True)
            except Exception as e:  # noqa
                return [f'third shape: {type(e).__name__}: {e}'[:160]]
        if snap != normal(again):
            bad.append('third shape: second call differs from the first call')
        if normal({k: v for k, v in mem.items() if k != 'overall'}) != normal(parsed):
            bad.append('third shape: iterations.txt parses to something else than what was returned in memory')
        for r in (1, 2):
            lo, hi, st = SINGLE[r]
            got = [int(x) for x in mem.get(r, {}).get('rl = 0', [])]
            if got != [lo, hi, st]:
                bad.append(f"third shape: restart {r} catalogued as {got}, on disk {[lo, hi, st]}")
        want = {tuple(vs): [fn] for fn, (_, vs) in GROUPED3.items()}
        for tag, c_ in (('first', cont), ('overwrite=True', cont_fresh)):
            got = {tuple(k): sorted(os.path.basename(x) for x in v) for k, v in c_.items()}
            if got != want:
                bad.append(f'third shape: content catalogue ({tag}) maps {got}, on disk {want}')
    finally:
        STRIDED, GROUPED = saved
        shutil.rmtree(root, ignore_errors=True)
    return bad


def strided_round_trip(simname):
    """-> list of problems for the strided / two-thorn directory (real functions, temporary directory)"""
    from aurel import reading
    import io
    import contextlib
    bad = []
    root = tempfile.mkdtemp(prefix='c18s_')
    try:
        make_sim_strided(root + '/', simname, restarts=3)
        param = {'simname': simname, 'simpath': root + '/'}
        with contextlib.redirect_stdout(io.StringIO()):
            try:
                mem = reading.iterations(param, skip_last=False, verbose=False)
                mem_snapshot = normal(mem)
                again = reading.iterations(param, skip_last=False, verbose=False)
                parsed = reading.read_iterations(param, skip_last=False, verbose=False)
                cont = reading.get_content(param, restart=0, verbose=False)
                cont_cached = reading.get_content(param, restart=0, verbose=False)
                cont_fresh = reading.get_content(param, restart=0, verbose=False, overwrite=True)
            except Exception as e:  # noqa
                return [f'{type(e).__name__}: {e}'[:160]]
        if mem_snapshot != normal(again):
            bad.append('second call differs from the first call')
        if normal({k: v for k, v in mem.items() if k != 'overall'}) != normal(parsed):
            bad.append('iterations.txt parses to something else than what was returned in memory')
        for r in range(3):
            lo, hi, st = STRIDED[r]
            got = mem.get(r, {})
            if [int(x) for x in got.get('its available', [])] != [lo, hi] or [int(x) for x in got.get('rl = 0', [])] != [lo, hi, st]:
                bad.append(f"restart {r} catalogued as {got.get('its available')} / {got.get('rl = 0')}, on disk {[lo, hi, st]}")
        ov = [[int(x) for x in seg] for seg in mem.get('overall', {}).get('rl = 0', [])]
        if ov != [[0, 256, 64], [256, 768, 32]]:
            bad.append(f'overall ranges {ov}, on disk [[0, 256, 64], [256, 768, 32]]')
        want = {tuple(vs): [fn] for fn, (_, vs) in GROUPED.items()}
        for tag, c_ in (('first', cont), ('cached', cont_cached), ('overwrite=True', cont_fresh)):
            got = {tuple(k): sorted(os.path.basename(x) for x in v) for k, v in c_.items()}
            if got != want:
                bad.append(f'content catalogue ({tag}) maps {got}, on disk {want}')
        # incremental: a fourth restart, then against one fresh scan
        make_sim_strided(root + '/', simname, restarts=4)
        with contextlib.redirect_stdout(io.StringIO()):
            try:
                inc = reading.iterations(param, skip_last=False, verbose=False)
                os.remove(os.path.join(root, simname, 'iterations.txt'))
                fresh = reading.iterations(param, skip_last=False, verbose=False)
            except Exception as e:  # noqa
                return bad + [f'incremental: {type(e).__name__}: {e}'[:160]]
        if normal(inc) != normal(fresh):
            bad.append('incremental cataloguing differs from one fresh scan')
        if [int(x) for x in fresh.get(2, {}).get('rl = 0', [])] != [512, 768, 32]:
            bad.append(f"after the fourth restart, restart 2 is catalogued as {fresh.get(2, {}).get('rl = 0')}, on disk [512, 768, 32]")
    finally:
        shutil.rmtree(root, ignore_errors=True)
    return bad


def replay_dispatch(line, tname):
    """find a simulation name that makes iterations() write such a line, run the real functions twice"""
    from aurel import reading
    # the free part of the witness is the path; use its distinctive content as the simulation name
    m = re.search(r"(?:Reading iterations in: |Could not find 3D data in )(.*)", line)
    payload = (m.group(1) if m else line).replace('/', '_') or 'x'
    simname = 'sim ' + payload[:60] + '.'
    root = tempfile.mkdtemp(prefix='c18_')
    try:
        make_sim(root + '/', simname)
        param = {'simname': simname, 'simpath': root + '/'}
        import io
        import contextlib
        try:
            with contextlib.redirect_stdout(io.StringIO()):
                a = reading.iterations(param, skip_last=False, verbose=False)
                b = reading.read_iterations(param, skip_last=False, verbose=False)
                c = reading.iterations(param, skip_last=False, verbose=False)
        except Exception as e:  # noqa
            return dict(reproduces=True, simname=simname, error=f'{type(e).__name__}: {e}'[:200])
        a.pop('overall', None)
        c.pop('overall', None)
        if normal(a) != normal(b) or normal(a) != normal(c):
            return dict(reproduces=True, simname=simname, error='parsed catalogue differs from the one returned in memory')
        return dict(reproduces=False, simname=simname, error=None)
    finally:
        shutil.rmtree(root, ignore_errors=True)


def normal(d):
    def conv(o):
        if isinstance(o, dict):
            return {str(k): conv(v) for k, v in o.items()}
        if isinstance(o, (list, tuple)):
            return [conv(x) for x in o]
        if hasattr(o, 'tolist'):
            return conv(o.tolist())
        return o
    return json.loads(json.dumps(conv(d), sort_keys=True, default=str))


# ------------------------------------------------------------------------------ (b2, c, d) concrete round trips
def round_trips(report, tier):
    from aurel import reading
    import io
    import contextlib
    names = ['plain', 'with space', 'a restart b', 'x->y', 'rl = 3', 'Checkpoints available at its', '3D variables available', 'it = 1 -> 2',
             ' === restart 7', "quote'name", 'Could not find 3D data in']
    bad = []
    for simname in names if tier == 'thorough' else names[:8]:
        root = tempfile.mkdtemp(prefix='c18_')
        try:
            make_sim(root + '/', simname, restarts=3)
            param = {'simname': simname, 'simpath': root + '/'}
            with contextlib.redirect_stdout(io.StringIO()):
                try:
                    mem = reading.iterations(param, skip_last=False, verbose=False)
                    again = reading.iterations(param, skip_last=False, verbose=False)
                    parsed = reading.read_iterations(param, skip_last=False, verbose=False)
                    cont = reading.get_content(param, restart=0, verbose=False)
                    cont2 = reading.get_content(param, restart=0, verbose=False)
                except Exception as e:  # noqa
                    bad.append((simname, f'{type(e).__name__}: {e}'[:160]))
                    continue
            for tag, d in (('second call', again),):
                if normal(mem) != normal(d):
                    bad.append((simname, f'{tag} differs from the first call'))
            mem_wo = {k: v for k, v in mem.items() if k != 'overall'}
            if normal(mem_wo) != normal(parsed):
                bad.append((simname, 'iterations.txt parses to something else than what was returned in memory'))
            # on-disk truth
            want = {0: [0, 2], 1: [4, 6], 2: [8, 10]}
            for r, (lo, hi) in want.items():
                got = mem.get(r, {})
                if [int(x) for x in got.get('its available', [])] != [lo, hi] or [int(x) for x in got.get('rl = 1', [])] != [lo, hi, 2] \
                        or got.get('checkpoints') != ([4 * r] if r != 1 else []) or sorted(got.get('var available', [])) != ['alpha', 'rho0']:
                    bad.append((simname, f'restart {r} catalogued as {got}'))
            if {k: sorted(v) for k, v in cont.items()} != {k: sorted(v) for k, v in cont2.items()} or sorted(cont) != [('alp',), ('rho',)]:
                bad.append((simname, f'content catalogue unstable or wrong: {sorted(cont)}'))
            # incremental cataloguing: add a restart, call again
            make_sim(root + '/', simname, restarts=4)
            with contextlib.redirect_stdout(io.StringIO()):
                try:
                    inc = reading.iterations(param, skip_last=False, verbose=False)
                except Exception as e:  # noqa
                    bad.append((simname, f'incremental: {type(e).__name__}: {e}'[:160]))
                    continue
            os.remove(os.path.join(root, simname, 'iterations.txt'))
            with contextlib.redirect_stdout(io.StringIO()):
                fresh = reading.iterations(param, skip_last=False, verbose=False)
            if normal(inc) != normal(fresh):
                bad.append((simname, 'incremental cataloguing differs from one fresh scan'))
        finally:
            shutil.rmtree(root, ignore_errors=True)
    for simname in ('strided', 'a restart b'):
        for what in strided_round_trip(simname) + single_round_trip(simname):
            bad.append((simname + ' [strided restarts, two thorns with one group name]', what))
    report.record(f'catalogue round trips on generated directories ({len(names)} simulation names incl. catalogue keywords; 3 directory shapes)',
                  'holds' if not bad else 'sat', group='concrete executions', kind='concrete', trivial=True)
    seen = set()
    for simname, what in bad:
        key = 'catalogue round trip: ' + what.split(':')[0][:60]
        if key in seen:
            continue
        seen.add(key)
        report.violation(key, f"simulation name {simname!r}: {what}", report.write_replay('roundtrip_' + str(len(seen)), dict(simname=simname, what=what)))
    # (d) content.txt key encoding: tuple(','.join(key).split(',')) == key for names the file-name regex admits
    z3 = z3mod()
    S = z3.StringSort()
    name_re = z3.Plus(z3.Union(z3.Range('a', 'z'), z3.Range('A', 'Z'), z3.Range('0', '9'), z3.Re('_'), z3.Re('['), z3.Re(']')))
    s = z3.String('n')
    sol = z3.Solver()
    sol.set('timeout', 30000)
    sol.add(z3.InRe(s, z3.Intersect(name_re, z3.Concat(z3.Full(z3.ReSort(S)), z3.Re(','), z3.Full(z3.ReSort(S))))))
    _t0 = time.time()
    r = sol.check()
    _dt = time.time() - _t0
    v = str(r) if str(r) in ('sat', 'unsat') else 'unknown'
    solver.STATS.add('z3py-strings', v, _dt)
    report.record("variable names admitted by the file-name regex cannot contain the ',' used to join content.txt keys", v,
                  backend='z3py-strings', sha='contentkey', group='content.txt key encoding (regular-language query)')
    if v != 'unsat':
        report.inconc('content.txt key encoding', f'{v}')


def main(report, tier, seed, workers, calibrate=False):
    report.bounds = dict(names='simulation names / paths: all strings without line breaks (dispatch queries); thorn, variable, numerals as in the '
                         'naming scheme (regex premises)', round_trips='3-4 restarts, 2 variables, 2 levels, 11 simulation names (concrete)',
                         outside=['h5py key listing and directory scanning themselves', '.par parsing (parameters())', 'names containing line breaks',
                                  'field extraction of iterations.txt for arbitrary numerals is exercised concretely, not symbolically'])
    report.assumptions += ["Python's re is leftmost-greedy with backtracking (the premises make the greedy parse the intended one; differential-tested)",
                           'line templates and dispatch tests are taken from the AST of iterations() / read_iterations()']
    report.stubs += ['none for (a), (b1): languages are built from the source; replays run the real functions on a real temporary directory']
    with FuncTrace() as ft:
        regex_premises(report)
        dispatch_disjointness(report)
        round_trips(report, tier)
    report.functions |= ft.seen
    report.extra['source_sha1'] = source_digest(FILES)


def replay_payload(payload):
    if 'line' in payload:
        rp = replay_dispatch(payload['line'], payload.get('template', ''))
        print(rp)
        return 1 if rp['reproduces'] else 0
    print(payload)
    return 1
