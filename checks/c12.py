"""C12 - the per-iteration read cache never changes what read_data returns.

Histories of read_data calls on one (fake) simulation directory starting from an empty cache.  The
real read_data / read_ET_data (cache block) / read_ET_variables / read_aurel_data / save_data /
transform_vars_* run over an in-memory file system; only the leaf that decodes ET HDF5 files
(read_ET_group_or_var) and the two catalogue functions are replaced by a ground-truth generator whose
datum for (variable, iteration, level) is the tag itself.  Iteration numbers of every call are
symbolic integers (unbounded), so all coincidences between calls are explored by forking."""
import itertools
import multiprocessing as mp
import os
import shutil
import tempfile
import time

import numpy as np

from symx import term as tm, solver
from symx.sym import explore, Inconclusive, ctx
from symx.symint import SInt, sym_int, canonical_token, sym_set, sym_sorted
from symx.harness import FuncTrace, source_digest
from .ch.fakefs import FakeFS, FakeH5, FakeOS, FakeNP

PID = 'C12'
FILES = ['src/aurel/reading.py']
LO, HI = -10 ** 9, 10 ** 9

GROUPS = {'admbase-metric': ('gxx', 'gxy', 'gxz', 'gyy', 'gyz', 'gzz'), 'admbase-curv': ('kxx', 'kxy', 'kxz', 'kyy', 'kyz', 'kzz'),
          'admbase-lapse': ('alp',), 'admbase-shift': ('betax', 'betay', 'betaz'), 'hydrobase-rho': ('rho',)}
VAR_CHOICES = [['gxx'], ['gammadown3'], ['gxx', 'kxx'], ['gammadown3', 'alpha'], ['alpha', 'rho0'], ['kxy', 'gammadown3'],
               ['gammadown3', 'gxx'], ['alpha', 'alpha']]        # 6, 7: a tensor together with one of its own components; a repeated name


def content(layout):
    if layout == 'grouped':
        return {g: [f'/sim/output-0000/sim/{name}.h5'] for name, g in GROUPS.items()}
    return {(v,): [f'/sim/output-0000/sim/{v}.h5'] for g in GROUPS.values() for v in g}


class Truth:
    """ground-truth generator + bookkeeping of what was read from 'ET files'"""

    def __init__(self, concrete=False):
        self.concrete = concrete
        self.et_reads = 0

    def tag(self, var, it, rl):
        if self.concrete:
            return np.array([float(abs(hash(var)) % 9973), float(it), float(rl)])
        return ('tag', var, it, rl)

    def ttag(self, it):
        if self.concrete:
            return float(it) * 0.5
        return ('time', it)

    def same(self, a, b):
        if a is None or b is None:
            return a is None and b is None
        if self.concrete:
            return np.array_equal(np.asarray(a), np.asarray(b))
        return isinstance(a, tuple) and len(a) == len(b) and all(x == y for x, y in zip(a, b))


def install(reading, truth, layout, fs=None):
    """patch the module under test; returns a restore function"""
    saved = {k: getattr(reading, k, None) for k in ('h5py', 'os', 'np', 'int', 'set', 'sorted', 'iterations', 'get_content',
                                                     'read_ET_group_or_var')}

    def iterations(param, **kw):
        return {0: {'var available': ['gammadown3', 'Kdown3', 'alpha', 'betaup3', 'rho0'], 'its available': [LO, HI],
                    'checkpoints': []}}

    def get_content(param, **kw):
        return content(layout)

    def read_ET_group_or_var(variables, files, cmax, **kw):
        it = sorted(set(kw.get('it', [0])))
        rl = kw.get('rl', 0)
        truth.et_reads += 1
        out = {}
        for v in variables:
            av = reading.transform_vars_ET_to_aurel(v)
            out[av] = [truth.tag(av, i, rl) for i in it]
        out['t'] = [truth.ttag(i) for i in it]
        return out
    reading.iterations, reading.get_content, reading.read_ET_group_or_var = iterations, get_content, read_ET_group_or_var
    if fs is not None:
        reading.h5py, reading.os, reading.np, reading.int = FakeH5(fs), FakeOS(fs), FakeNP(), sym_int
        reading.set, reading.sorted = sym_set, sym_sorted

    def restore():
        for k, v in saved.items():
            if v is None:
                if hasattr(reading, k) and k in ('int', 'set', 'sorted'):
                    delattr(reading, k)
            else:
                setattr(reading, k, v)
    return restore


def check_result(truth, out, req_its, rl):
    probs = []
    ss = sorted(set(req_its))
    if len(out['it']) != len(ss) or any(not (a == b) for a, b in zip(out['it'], ss)):
        probs.append("returned 'it' column is not the sorted set of requested iterations")
    for key, col in out.items():
        if key == 'it':
            continue
        if len(col) != len(ss):
            probs.append(f'column {key} has {len(col)} entries for {len(ss)} iterations')
            continue
        for k, i in enumerate(ss):
            want = truth.ttag(i) if key == 't' else truth.tag(key, i, rl)
            if not truth.same(col[k], want):
                probs.append(f'read_data returns for ({key}, iteration, rl={rl}) something else than an uncached read')
    return probs


def check_cache_files(truth, fs):
    """every dataset in every it_*.hdf5 holds the data of the variable / iteration / level it is filed under"""
    probs = []
    reg = getattr(ctx(), 'tokens', [])
    for fname, dsets in fs.files.items():
        if '/it_' not in fname:
            continue
        tok = fname.rsplit('/it_', 1)[1][:-len('.hdf5')]
        terms = [t for t, k in reg if k == tok]
        if not terms:
            probs.append(f'cache file {fname} has no iteration')
            continue
        it = SInt(terms[0])
        for key, ds in dsets.items():
            name, _, lev = key.partition(' rl=')
            lev = int(lev)
            want = it if name == 'it' else truth.ttag(it) if name == 't' else truth.tag(name, it, lev)
            got = ds.data
            ok = (got == want) if name == 'it' else truth.same(got, want)
            if not ok:
                probs.append(f"cache dataset '{name} rl={lev}' of one it_*.hdf5 file holds data of another variable/iteration/level")
    return probs


BUDGET_S = 420


def history_configs(tier):
    """(layout, [(vars, n_its, rl, split_per_it), ...])"""
    out = []
    pairs = [(0, 1), (1, 0), (0, 0), (1, 3), (3, 1), (2, 1), (5, 1), (4, 4)]
    if tier == 'quick':
        pairs = [(0, 1), (1, 0), (2, 1), (3, 1), (4, 4)]
    for layout in ('grouped', 'ungrouped'):
        for a, b in pairs:
            out.append((layout, [(VAR_CHOICES[a], 2, 0, True), (VAR_CHOICES[b], 2, 0, True)]))
        out.append((layout, [(VAR_CHOICES[0], 2, 0, True), (VAR_CHOICES[1], 1, 1, True), (VAR_CHOICES[1], 2, 0, True)]))
        if tier == 'thorough':
            out.append((layout, [(VAR_CHOICES[0], 2, 0, True), (VAR_CHOICES[1], 2, 1, True), (VAR_CHOICES[1], 2, 0, True)]))
        out.append((layout, [(VAR_CHOICES[1], 1, 0, False), (VAR_CHOICES[0], 1, 0, True), (VAR_CHOICES[1], 2, 0, True)]))
        # overlapping names in one request, cold then warm cache
        out.append((layout, [(VAR_CHOICES[6], 2, 0, True), (VAR_CHOICES[6], 2, 0, True)]))
        if layout == 'grouped':
            out.append((layout, [(VAR_CHOICES[7], 2, 0, True), (VAR_CHOICES[7], 2, 0, True)]))
        # refinement levels whose decimal labels contain one another (1 / 10, 2 / 21)
        out.append((layout, [(VAR_CHOICES[0], 1, 10, True), (VAR_CHOICES[0], 1, 1, True)] if layout == 'grouped'
                    else [(VAR_CHOICES[1], 1, 21, True), (VAR_CHOICES[1], 1, 2, True)]))
    if tier == 'thorough':
        for layout in ('grouped', 'ungrouped'):
            for a, b, c_ in [(0, 1, 3), (1, 0, 2), (2, 3, 1), (5, 0, 1)]:
                out.append((layout, [(VAR_CHOICES[a], 2, 0, True), (VAR_CHOICES[b], 3, 0, True), (VAR_CHOICES[c_], 2, 0, True)]))
            out.append((layout, [(VAR_CHOICES[0], 3, 0, True), (VAR_CHOICES[1], 3, 0, True)]))
    return out


def run_history(args):
    idx, tier = args
    layout, calls = history_configs(tier)[idx]
    from aurel import reading
    name = f"{layout}: " + ' ; '.join(f"read({'+'.join(v)}, {n} its, rl={rl}{'' if sp else ', split_per_it=False'})"
                                        for v, n, rl, sp in calls)
    names = [f'c{ci}i{k}' for ci, (v, n, rl, sp) in enumerate(calls) for k in range(n)]
    res = dict(name=name, idx=idx, paths=0, queries=0, bad=[], inconclusive=None)
    t0 = time.time()

    def run(c):
        vs = {nm: SInt.var(nm) for nm in names}
        for nm in names:
            c.pre += [tm.le(tm.const(LO), vs[nm].t), tm.le(vs[nm].t, tm.const(HI))]
        fs = FakeFS()
        truth = Truth()
        restore = install(reading, truth, layout, fs)
        param = {'simulation': 'ET', 'simname': 'sim', 'simpath': '/'}
        probs = []
        try:
            for ci, (vars_, n, rl, sp) in enumerate(calls):
                its = [vs[f'c{ci}i{k}'] for k in range(n)]
                its_arg, vars_arg = list(its), list(vars_)
                try:
                    out = reading.read_data(param, it=its_arg, vars=vars_arg, rl=rl, split_per_it=sp,
                                            verbose=False, veryverbose=False)
                    if vars_arg != list(vars_) or len(its_arg) != len(its) or any(a is not b for a, b in zip(its_arg, its)):
                        probs.append(f"call {ci}: read_data modified the caller's vars / it list (vars now {vars_arg})")
                except Inconclusive:
                    raise
                except Exception as e:  # noqa
                    probs.append(f'call {ci} raises {type(e).__name__}: {e}'[:160])
                    break
                probs += [f'call {ci}: {p}' for p in check_result(truth, out, its, rl)]
                probs += [f'after call {ci}: {p}' for p in check_cache_files(truth, fs)]
        finally:
            restore()
        return probs
    # quick: exhaustive.  thorough: the histories with 6-7 symbolic iterations have more paths than fit (measured: not done in 20 min);
    # they are explored depth-first for BUDGET_S seconds and reported as truncated (held on the paths explored)
    try:
        for c, probs in explore(run, pre=[], backend='inproc', ints=names, decide_timeout=5, max_paths=50000):
            if tier == 'thorough' and time.time() - t0 > BUDGET_S:
                res['truncated'] = True
                break
            res['paths'] += 1
            res['queries'] += c.decision_queries
            res['solver_seconds'] = res.get('solver_seconds', 0.0) + c.decision_seconds
            if probs and len(res['bad']) < 3:
                v, model = c.model()
                res['bad'].append(dict(problems=sorted(set(probs)), model={k: int(x) for k, x in model.items() if x is not None}))
                if len(res['bad']) >= 3:
                    break          # three failing paths establish the violation: no need to enumerate the rest
    except Inconclusive as e:
        res['inconclusive'] = str(e)
    res['seconds'] = round(time.time() - t0, 2)
    return res


def replay_concrete(tier, idx, model):
    """Same history with concrete iterations, the real h5py/os/numpy and a temp directory as cache."""
    from aurel import reading
    layout, calls = history_configs(tier)[idx]
    root = tempfile.mkdtemp(prefix='c12_')
    truth = Truth(concrete=True)
    restore = install(reading, truth, layout, fs=None)
    param = {'simulation': 'ET', 'simname': 'sim', 'simpath': root + '/'}
    probs = []
    try:
        for ci, (vars_, n, rl, sp) in enumerate(calls):
            its = [int(model.get(f'c{ci}i{k}', 0)) for k in range(n)]
            vars_arg = list(vars_)
            try:
                out = reading.read_data(param, it=list(its), vars=vars_arg, rl=rl, split_per_it=sp, verbose=False)
                if vars_arg != list(vars_):
                    probs.append(f"call {ci}: read_data modified the caller's vars / it list (vars now {vars_arg})")
            except Exception as e:  # noqa
                probs.append(f'call {ci} raises {type(e).__name__}: {e}'[:160])
                break
            probs += [f'call {ci}: {p}' for p in check_result(truth, out, its, rl)]
            # cache files
            import glob
            import h5py
            for fn in glob.glob(root + '/sim/output-0000/sim/all_iterations/it_*.hdf5'):
                i = int(os.path.basename(fn)[3:-5])
                with h5py.File(fn, 'r') as f:
                    for key in f.keys():
                        nm, _, lev = key.partition(' rl=')
                        got = np.array(f[key])
                        want = i if nm == 'it' else truth.ttag(i) if nm == 't' else truth.tag(nm, i, int(lev))
                        if not np.array_equal(got, np.asarray(want)):
                            probs.append(f"after call {ci}: cache dataset '{key}' of it_{i}.hdf5 holds other data")
    finally:
        restore()
        shutil.rmtree(root, ignore_errors=True)
    return dict(problems=sorted(set(probs)), reproduces=bool(probs))


def main(report, tier, seed, workers, calibrate=False):
    cfgs = history_configs(tier)
    report.bounds = dict(history_length='2-3 read_data calls from an empty cache', iterations_per_call='<= 2 (quick) / 3 (thorough), '
                         'symbolic unbounded integers (coincidences between calls explored by forking)',
                         variable_lists=VAR_CHOICES, layouts=['grouped', 'ungrouped'], levels='rl in {0, 1} and the pairs (10, 1), (21, 2)',
                         restarts='one (restart interplay: C11)', thorough_budget=f'histories with more than 5 symbolic iterations: depth-first for {BUDGET_S} s '
                         'each, reported as truncated with the number of paths explored (quick tier: every history exhaustive)', outside=['concurrent readers', 'partially written cache files',
                                                                           'decoding of ET HDF5 files (C11)'])
    report.assumptions += ['ground truth for (variable, iteration, level) is an opaque tag produced by the stubbed leaf reader']
    report.stubs += ['reading.read_ET_group_or_var -> ground-truth tags', 'reading.iterations / get_content -> one restart, fixed catalogue',
                     'reading.h5py / os / np -> in-memory fs and list shim; builtin int() -> identity on symbolic integers']
    with FuncTrace() as ft:
        run_history((0, tier))
    report.functions |= ft.seen
    report.extra['source_sha1'] = source_digest(FILES)
    with mp.Pool(min(workers, len(cfgs))) as pool:
        results = pool.map(run_history, [(i, tier) for i in range(len(cfgs))], chunksize=1)
    tot = 0
    for r in results:
        tot += r['paths']
        verdict = 'unsat'
        if r['inconclusive']:
            verdict = 'unknown'
            report.inconc(r['name'], r['inconclusive'])
        if r['bad']:
            verdict = 'sat'
        report.record(r['name'] + (' [truncated: depth-first for %d s]' % BUDGET_S if r.get('truncated') else ''), verdict, r['seconds'],
                      backend='z3py-inproc', sha=f"{r['paths']}p{r['queries']}q:{r['idx']}",
                      group=r['name'].split(':')[0] + ' layout' + (' (truncated explorations)' if r.get('truncated') else ''),
                      detail=dict(paths=r['paths'], queries=r['queries'], truncated=bool(r.get('truncated'))))
        if r.get('truncated'):
            report.extra.setdefault('truncated_histories', []).append(dict(history=r['name'], paths_explored=r['paths']))
        solver.STATS.queries += r['queries']
        solver.STATS.seconds += r.get('solver_seconds', 0.0)
        solver.STATS.by_backend['z3py-inproc'] = solver.STATS.by_backend.get('z3py-inproc', 0) + r['queries']
        for b in r['bad'][:1]:
            rp = replay_concrete(tier, r['idx'], b['model'])
            if not rp['reproduces'] and any(str(k_).startswith('__hb_') for k_ in b['model']):
                # the path depends on the iteration order of a Python set (modelled as a hidden per-path order); CPython's
                # order for small ints is fixed by their values: look for iteration numbers with the same relative order
                # (all path conditions compare iterations only) whose real set order realises the path
                import itertools as _it
                names_ = sorted(k_ for k_ in b['model'] if not str(k_).startswith('__hb_'))
                vals_ = sorted(set(int(b['model'][k_]) for k_ in names_))
                tried = 0
                for cand in _it.combinations([0, 1, 2, 3, 5, 8, 9, 10, 16, 17, 24], len(vals_)):
                    remap = dict(zip(vals_, cand))
                    m2 = {k_: remap[int(b['model'][k_])] for k_ in names_}
                    rp2 = replay_concrete(tier, r['idx'], m2)
                    tried += 1
                    if rp2['reproduces']:
                        rp = rp2
                        b = dict(b, model=m2)
                        break
                    if tried >= 80:
                        break
            key = b['problems'][0].split(': ', 1)[-1][:90]
            if rp['reproduces']:
                path = report.write_replay(f"h{r['idx']}", dict(history=r['name'], idx=r['idx'], tier=tier, model=b['model'],
                                                                  problems=b['problems'], replay=rp))
                report.violation(key, f"{r['name']} with iterations {b['model']}: {rp['problems'][0]}", path)
            else:
                report.harness_errors.append(f"{r['name']}: symbolic path reports {b['problems'][:2]} but the h5py replay does not")
    report.extra['paths_explored'] = tot
    # translator validation: every history once with concrete iterations on the real h5py
    for i in range(len(cfgs)):
        layout, calls = cfgs[i]
        model = {f'c{ci}i{k}': 2 * ((ci + k) % 3) + (ci if k else 0) for ci, (v, n, rl, sp) in enumerate(calls) for k in range(n)}
        rp = replay_concrete(tier, i, model)
        report.validation['translator_checks'] += 1
        if rp['reproduces']:
            path = report.write_replay(f"h{i}_concrete", dict(history=results[i]['name'], idx=i, tier=tier, model=model, replay=rp))
            report.violation(rp['problems'][0].split(': ', 1)[-1][:90], f"{results[i]['name']} with {model}: {rp['problems'][0]}", path)
    report.vacuity.append(dict(name='every history explored at least one path', expect='yes',
                               got='yes' if all(r['paths'] > 0 for r in results) else 'no'))


def replay_payload(payload):
    rp = replay_concrete(payload.get('tier', 'quick'), payload['idx'], payload['model'])
    print(rp)
    return 1 if rp['reproduces'] else 0
