"""C10 - Weyl tensor, electric/magnetic parts, Weyl scalars, tetrads and invariants."""
import itertools
import random
from fractions import Fraction as F

import numpy as np

from symx import term as tm, oracle, solver
from symx.sym import Ctx, use_ctx, sym, symarray, SymReal, SymComplex
from symx.jet import Jet
from symx.npproxy import patched
from symx.fd import UninterpretedFD
from symx.harness import Ob, FuncTrace, JetRun, source_digest, watch, grid_fd, eval_terms
from . import gr
from .common import process_jet, vacuity, witness_sat, load_calib, save_calib

PID = 'C10'
FILES = ['src/aurel/core.py', 'src/aurel/maths.py']
E = gr.ungrid


def T0(x):
    return x.trunc(0) if isinstance(x, Jet) else x


def riemann_symmetric_free(prefix, n=4):
    """Free tensor with the Riemann pair/antisymmetries (not Bianchi), from free parameters."""
    q = E(symarray(prefix, (n,) * 4))
    R = oracle.arr((n,) * 4)
    for i, j, k, l in itertools.product(range(n), repeat=4):
        R[i, j, k, l] = (q[i, j, k, l] - q[j, i, k, l] - q[i, j, l, k] + q[j, i, l, k]
                         + q[k, l, i, j] - q[l, k, i, j] - q[k, l, j, i] + q[l, k, j, i])
    return R


def metric_point():
    """pointwise 3+1 variables and the oracle 4-metric / inverse built from them."""
    al = symarray('al', ())
    be = symarray('b', (3,))
    ga = symarray('g', (3, 3), symmetric=True)
    gv = [[ga[i, j, 0, 0, 0].t for j in range(3)] for i in range(3)]
    pre = oracle.spd_preconditions(gv) + [tm.lt(tm.ZERO, al[0, 0, 0].t)]
    a, b, g3 = al[0, 0, 0], E(be), E(ga)
    bd = np.einsum('i,ij->j', b, g3)
    g4 = oracle.arr((4, 4))
    g4[0, 0] = -a * a + np.einsum('i,i->', b, bd)
    for i in range(3):
        g4[0, i + 1] = g4[i + 1, 0] = bd[i]
        for j in range(3):
            g4[i + 1, j + 1] = g3[i, j]
    return dict(al=al, be=be, ga=ga, pre=pre, g4=g4, gi4=oracle.inverse(g4), gi3=oracle.inverse(g3),
                n_up=np.array([1 / a, -b[0] / a, -b[1] / a, -b[2] / a], dtype=object),
                n_dn=np.array([-a, 0, 0, 0], dtype=object))


def weyl_formula(R, Rc, Rs, g):
    C = oracle.arr((4, 4, 4, 4))
    for a, b, c, d in itertools.product(range(4), repeat=4):
        C[a, b, c, d] = (R[a, b, c, d]
                         - 0.5 * (g[a, c] * Rc[d, b] - g[a, d] * Rc[c, b] - g[b, c] * Rc[d, a] + g[b, d] * Rc[c, a])
                         + Rs * (g[a, c] * g[d, b] - g[a, d] * g[c, b]) / 6)
    return C


def env_metric(which):
    return {f'g{i}{j}': F(v) for (i, j), v in gr.DESIGNED_GAMMA[which].items()}


def point_sampler(names_extra=()):
    def f(rng):
        env = env_metric(rng.randrange(2))
        env['al'] = F(rng.randint(4, 16), 8)
        for i in range(3):
            env[f'b{i}'] = F(rng.choice([-7, -3, 2, 5]), 8)
        for n in names_extra:
            env[n] = F(rng.choice([x for x in range(-8, 9) if x]), 8)
        return env
    return f


def names_of(*arrays):
    out = []
    for a in arrays:
        for e in np.asarray(a, dtype=object).flat:
            if isinstance(e, SymReal):
                out += [v.val for v in tm.free_vars([e.t])]
    return sorted(set(out))


def build(tier):
    from aurel.core import AurelCore
    blocks = []
    with patched():
        # ---- (a3) Riemann branch: formula on free Riemann / Ricci / metric ------------------------
        M = metric_point()
        fd = UninterpretedFD()
        rel = AurelCore(fd, verbose=False)
        R = riemann_symmetric_free('q')
        Rcs = symarray('Rc', (4, 4), symmetric=True)
        Rss = symarray('Rs', ())
        rel.data.update(alpha=M['al'], betaup3=M['be'], gammadown3=M['ga'])
        rel.data['st_Riemann_down4'] = gr.grid(R)
        rel.data['st_Ricci_down4'] = Rcs
        rel.data['st_RicciS'] = Rss
        rel.freeze_data()
        before = np.array(rel.data['st_Riemann_down4'], copy=True)
        c = Ctx(pre=M['pre'], fork=False)
        obs = []
        with use_ctx(c):
            C = E(rel['st_Weyl_down4'])
            want = weyl_formula(R, E(Rcs), Rss[0, 0, 0], M['g4'])
            comps = list(itertools.product(range(4), repeat=4))
            for a, b, cc, d in comps:
                obs.append(Ob(f'Weyl(Riemann branch)[{a},{b},{cc},{d}]', C[a, b, cc, d], want[a, b, cc, d],
                              M['pre'], group='st_Weyl_down4 (Riemann branch) == R - Ricci parts',
                              meta=dict(key='st_Weyl_down4(Riemann branch):Ricci terms')))
        extra = names_of(R, E(Rcs), E(Rss))
        blocks.append(dict(name='riemann-branch', obs=obs, ctx=c, pre=M['pre'], run=None,
                           sampler=point_sampler(extra)))

        # ---- (b) with Ricci := contraction of the free Riemann-symmetric tensor the output is
        #          trace-free and keeps the Riemann symmetries ------------------------------------------
        M2 = metric_point()
        rel2 = AurelCore(fd, verbose=False)
        R2 = riemann_symmetric_free('q')
        gi4 = M2['gi4']
        Ric = np.einsum('ac,abcd->bd', gi4, R2)
        RS = np.einsum('bd,bd->', gi4, Ric)
        rel2.data.update(alpha=M2['al'], betaup3=M2['be'], gammadown3=M2['ga'])
        rel2.data['st_Riemann_down4'] = gr.grid(R2)
        rel2.data['st_Ricci_down4'] = gr.grid(Ric)
        rel2.data['st_RicciS'] = gr.grid(RS)
        rel2.freeze_data()
        c2 = Ctx(pre=M2['pre'], fork=False)
        obs2 = []
        with use_ctx(c2):
            C2 = E(rel2['st_Weyl_down4'])
            for b, d in itertools.product(range(4), repeat=2):
                if tier == 'quick' and b > d:
                    continue
                tr = sum(gi4[a, cc] * C2[a, b, cc, d] for a in range(4) for cc in range(4))
                obs2.append(Ob(f'g^ac C_abcd [{b},{d}]', tr, 0, M2['pre'], group='Weyl (Riemann branch) trace-free',
                               meta=dict(key='st_Weyl_down4(Riemann branch):Ricci terms')))
            for a, b, cc, d in itertools.product(range(4), repeat=4):
                if not (a < b and cc < d):
                    continue
                obs2.append(Ob(f'C_abcd == C_cdab [{a}{b}{cc}{d}]', C2[a, b, cc, d], C2[cc, d, a, b], M2['pre'],
                               group='Weyl (Riemann branch) pair symmetry',
                               meta=dict(key='st_Weyl_down4(Riemann branch):Ricci terms')))
                obs2.append(Ob(f'C_abcd == -C_bacd [{a}{b}{cc}{d}]', C2[a, b, cc, d], -C2[b, a, cc, d], M2['pre'],
                               group='Weyl (Riemann branch) antisymmetry',
                               meta=dict(key='st_Weyl_down4(Riemann branch):Ricci terms')))
        blocks.append(dict(name='riemann-branch-traces', obs=obs2, ctx=c2, pre=M2['pre'], run=None,
                           sampler=point_sampler(names_of(R2)), sliced=True))

        # ---- (a2) E/B branch: assembled tensor has Weyl symmetries, is trace-free, and reproduces E, B
        M3 = metric_point()
        rel3 = AurelCore(fd, verbose=False)
        X = E(symarray('X', (3, 3), symmetric=True))
        Y = E(symarray('Y', (3, 3), symmetric=True))
        g3, gi3 = E(M3['ga']), M3['gi3']
        trX = sum(gi3[i, j] * X[i, j] for i in range(3) for j in range(3))
        trY = sum(gi3[i, j] * Y[i, j] for i in range(3) for j in range(3))
        Ef = oracle.arr((3, 3))
        Bf = oracle.arr((3, 3))
        for i in range(3):
            for j in range(3):
                Ef[i, j] = X[i, j] - g3[i, j] * trX / 3
                Bf[i, j] = Y[i, j] - g3[i, j] * trY / 3
        rel3.data.update(alpha=M3['al'], betaup3=M3['be'], gammadown3=M3['ga'])
        rel3.data['eweyl_n_down3'] = gr.grid(Ef)
        rel3.data['bweyl_n_down3'] = gr.grid(Bf)
        rel3.freeze_data()
        c3 = Ctx(pre=M3['pre'], fork=False)
        obs3 = []
        with use_ctx(c3):
            C3 = E(rel3['st_Weyl_down4'])
            n = M3['n_up']
            gi4 = M3['gi4']
            g4 = M3['g4']
            al3 = M3['al'][0, 0, 0]
            sg = oracle.det(g3).sqrt()
            for i in range(3):
                for j in range(i, 3):
                    Ec = sum(C3[i + 1, m, j + 1, nu] * n[m] * n[nu] for m in range(4) for nu in range(4))
                    obs3.append(Ob(f'EB-branch: C n n [{i},{j}]', Ec, Ef[i, j], M3['pre'],
                                   group='E/B branch: C_{i mu j nu} n^mu n^nu == E_ij'))
            # magnetic part: B_ij = 1/2 eps_{i mu}^{ab} C_{ab j nu} n^mu n^nu, eps_{i mu a b} n^mu = -eps^(3)_{iab}... written
            # with the 4D Levi-Civita tensor eps_{0123} = sqrt(-g) = alpha sqrt(gamma)
            eps4 = oracle.arr((4, 4, 4, 4))
            for p in itertools.product(range(4), repeat=4):
                eps4[p] = oracle.perm_sign(p) * al3 * sg if len(set(p)) == 4 else 0
            Cup = np.einsum('ae,bf,efcd->abcd', gi4, gi4, C3)         # C^{ab}_{cd}
            for i in range(3):
                for j in range(i, 3):
                    Bc = 0
                    for m, a, b, nu in itertools.product(range(4), repeat=4):
                        e = eps4[i + 1, m, a, b]
                        if isinstance(e, int) and e == 0:
                            continue
                        Bc = Bc + e * Cup[a, b, j + 1, nu] * n[m] * n[nu]
                    obs3.append(Ob(f'EB-branch: *C n n [{i},{j}]', Bc * 0.5, Bf[i, j], M3['pre'],
                                   group='E/B branch: 1/2 eps C n n == B_ij (up to the documented sign)',
                                   meta=dict(sign='either')))
            for b, d in itertools.product(range(4), repeat=2):
                if b > d:
                    continue
                tr = sum(gi4[a, cc] * C3[a, b, cc, d] for a in range(4) for cc in range(4))
                obs3.append(Ob(f'EB-branch: g^ac C_abcd [{b},{d}]', tr, 0, M3['pre'], group='E/B branch trace-free'))
            for a, b, cc, d in itertools.product(range(4), repeat=4):
                if not (a < b and cc < d):
                    continue
                obs3.append(Ob(f'EB-branch: pair sym [{a}{b}{cc}{d}]', C3[a, b, cc, d], C3[cc, d, a, b], M3['pre'],
                               group='E/B branch pair symmetry'))
                obs3.append(Ob(f'EB-branch: antisym [{a}{b}{cc}{d}]', C3[a, b, cc, d], -C3[b, a, cc, d], M3['pre'],
                               group='E/B branch antisymmetry'))
            # first Bianchi identity
            for a, b, cc, d in [(0, 1, 2, 3), (1, 0, 2, 3), (0, 1, 1, 2), (1, 2, 3, 1), (0, 2, 3, 2)]:
                obs3.append(Ob(f'EB-branch: cyclic [{a}{b}{cc}{d}]',
                               C3[a, b, cc, d] + C3[a, cc, d, b] + C3[a, d, b, cc], 0, M3['pre'],
                               group='E/B branch first Bianchi identity'))
        blocks.append(dict(name='EB-assembly', obs=obs3, ctx=c3, pre=M3['pre'], run=None,
                           sampler=point_sampler(names_of(X, Y)), sliced=True))

        # ---- (e) Weyl scalars are the stated contractions with the returned null vectors --------------
        rel4 = AurelCore(fd, verbose=False)
        Cf = riemann_symmetric_free('c')
        rel4.data['st_Weyl_down4'] = gr.grid(Cf)
        vec = {}
        for nm in ('l', 'k'):
            vec[nm] = np.array([sym(f'{nm}{a}') for a in range(4)], dtype=object)
        mre = np.array([sym(f'mr{a}') for a in range(4)], dtype=object)
        mim = np.array([sym(f'mi{a}') for a in range(4)], dtype=object)
        mvec = np.array([SymComplex(mre[a], mim[a]) for a in range(4)], dtype=object)
        mbvec = np.array([SymComplex(mre[a], -mim[a]) for a in range(4)], dtype=object)
        rel4.null_vector_base = lambda: (gr.grid(vec['l']), gr.grid(vec['k']), gr.grid(mvec), gr.grid(mbvec))
        c4 = Ctx(pre=[], fork=False)
        obs4 = []
        with use_ctx(c4):
            Psi = rel4['Weyl_Psi']
            l, k = vec['l'], vec['k']

            def contract(v1, v2, v3, v4):
                re, im = 0, 0
                for a, b, cc, d in itertools.product(range(4), repeat=4):
                    t = Cf[a, b, cc, d]
                    prod = SymComplex(t, 0)
                    for v, idx in ((v1, a), (v2, b), (v3, cc), (v4, d)):
                        prod = prod * v[idx]
                    re, im = re + prod.re, im + prod.im
                return re, im
            defs = [(k, mvec, k, mvec), (l, k, mvec, k), (k, mvec, mbvec, l), (k, l, mbvec, l), (l, mbvec, l, mbvec)]
            for n_, vs in enumerate(defs):
                vs = [np.array([x if isinstance(x, SymComplex) else SymComplex(x, 0) for x in v], dtype=object)
                      for v in vs]
                re, im = contract(*vs)
                p = Psi[n_][0, 0, 0]
                obs4.append(Ob(f'Weyl_Psi{n_} real', p.re, re, [], group='Weyl_Psi == contractions with the null tetrad'))
                obs4.append(Ob(f'Weyl_Psi{n_} imag', p.im, im, [], group='Weyl_Psi == contractions with the null tetrad'))
        blocks.append(dict(name='Weyl_Psi-cut', obs=obs4, ctx=c4, pre=[], run=None, sampler=None))

        # ---- (c') electric / magnetic parts in the fluid frame: contractions of a free Weyl-symmetric tensor with u ----
        M5 = metric_point()
        rel5 = AurelCore(fd, verbose=False)
        Cw = riemann_symmetric_free('c')
        W5, v5 = sym('W'), [sym(f'v{i}') for i in range(3)]
        g3_5 = E(M5['ga'])
        v2_5 = sum(g3_5[i, j] * v5[i] * v5[j] for i in range(3) for j in range(3))
        pre5 = M5['pre'] + [tm.lt(tm.ZERO, W5.t), tm.eq((W5 * W5 * (1 - v2_5)).t, tm.ONE)]
        rel5.data.update(alpha=M5['al'], betaup3=M5['be'], gammadown3=M5['ga'], w_lorentz=gr.grid(W5), velx=gr.grid(v5[0]),
                         vely=gr.grid(v5[1]), velz=gr.grid(v5[2]))
        rel5.data['st_Weyl_down4'] = gr.grid(Cw)
        rel5.freeze_data()
        c5 = Ctx(pre=pre5, fork=False)
        obs5 = []
        with use_ctx(c5):
            al5 = M5['al'][0, 0, 0]
            be5 = E(M5['be'])
            u = [W5 / al5] + [W5 * (v5[i] - be5[i] / al5) for i in range(3)]
            Eu = E(rel5['eweyl_u_down4'])
            Bu = E(rel5['bweyl_u_down4'])
            gi4 = M5['gi4']
            sg5 = oracle.det(g3_5).sqrt()
            eps4 = oracle.arr((4, 4, 4, 4))
            for p_ in itertools.product(range(4), repeat=4):
                eps4[p_] = oracle.perm_sign(p_) * al5 * sg5 if len(set(p_)) == 4 else 0
            eps_uudd = np.einsum('ac,bd,abef->cdef', gi4, gi4, eps4)
            for a in range(4):
                for c_ in range(a, 4):
                    want = sum(Cw[a, b, c_, d] * u[b] * u[d] for b in range(4) for d in range(4))
                    obs5.append(Ob(f'eweyl_u_down4[{a},{c_}]', Eu[a, c_], want, pre5, group='eweyl_u_down4 == C_abcd u^b u^d (free Weyl-symmetric C)'))
                    wb = 0
                    for b, c2, d, f in itertools.product(range(4), repeat=4):
                        e_ = eps_uudd[c2, d, c_, f]
                        if isinstance(e_, int) and e_ == 0:
                            continue
                        wb = wb + u[b] * u[f] * Cw[a, b, c2, d] * e_
                    obs5.append(Ob(f'bweyl_u_down4[{a},{c_}]', Bu[a, c_], wb * 0.5, pre5,
                                   group='bweyl_u_down4 == 1/2 u^b u^f C_abcd eps^cd_ef (free Weyl-symmetric C)'))
        blocks.append(dict(name='EB-fluid-frame', obs=obs5, ctx=c5, pre=pre5, run=None,
                           sampler=point_sampler(names_of(Cw) + ['v0', 'v1', 'v2', 'W'])))
    return blocks


def tetrad_blocks(tier):
    """(d) orthonormality of the returned tetrads on committed metric slices, coordinates free."""
    from aurel.core import AurelCore
    blocks = []
    with patched():
        for which in (0, 1):
            gvals = gr.DESIGNED_GAMMA[which]
            ga = np.empty((3, 3, 1, 1, 1), dtype=object)
            for i in range(3):
                for j in range(3):
                    ga[i, j, 0, 0, 0] = SymReal(tm.const(gvals[(min(i, j), max(i, j))]))
            x, y, z = sym('x'), sym('y'), sym('z')
            pre = [tm.lt(tm.ZERO, (x * x + y * y).t)]
            fd = UninterpretedFD()
            for nm, v in (('x', x), ('y', y), ('z', z)):
                a = np.empty((1, 1, 1), dtype=object)
                a[0, 0, 0] = v
                setattr(fd, nm, a)
            rel = AurelCore(fd, verbose=False)
            rel.data['gammadown3'] = ga
            rel.freeze_data()
            c = Ctx(pre=pre, fork=False, decide_timeout=60)
            obs = []
            with use_ctx(c):
                e0, e1, e2, e3 = rel.tetrad_base()
                g3 = E(ga)
                tri = [E(e1)[1:], E(e2)[1:], E(e3)[1:]]
                for p in range(3):
                    for q in range(p, 3):
                        ip = sum(g3[i, j] * tri[p][i] * tri[q][j] for i in range(3) for j in range(3))
                        obs.append(Ob(f'quasi-Kinnersley triad metric{which} <e{p + 1},e{q + 1}>', ip,
                                      1 if p == q else 0, pre,
                                      group='quasi-Kinnersley spatial triad orthonormal (metric slices)'))
                for a in range(4):
                    obs.append(Ob(f'quasi-Kinnersley e0[{a}] metric{which}', E(e0)[a], 1 if a == 0 else 0, pre,
                                  group='quasi-Kinnersley e0 == (1,0,0,0) (wave zone)'))
            blocks.append(dict(name=f'tetrad-qK-{which}', obs=obs, ctx=c, pre=pre, run=None, sampler=None))
    return blocks


def fluid_tetrad_blocks(tier):
    """(d') fluid-adapted tetrad: g(e_a, e_b) = eta_ab for a moving fluid (slice: committed metric value and shift,
    velocity along a committed gamma-unit direction with rational speed parameter p, free lapse).  Gram-Schmidt norms
    whose non-vanishing the solver can neither refute nor realise are recorded assumptions."""
    import sympy as sp
    from aurel.core import AurelCore
    blocks = []
    with patched():
        gvals = gr.DESIGNED_GAMMA[0]
        ga = np.empty((3, 3, 1, 1, 1), dtype=object)
        for i in range(3):
            for j in range(3):
                ga[i, j, 0, 0, 0] = SymReal(tm.const(gvals[(min(i, j), max(i, j))]))
        al = symarray('al', ())
        p = sym('p')
        L = sp.Matrix([[4, 0, 0], [1, 4, 0], [2, -1, 4]])           # gamma = L L^T
        d = L.T.inv() * sp.Matrix([sp.Rational(3, 5), sp.Rational(4, 5), 0])
        speed = 2 * p / (1 + p * p)
        W = (1 + p * p) / (1 - p * p)
        v = [speed * F(int(d[i].p), int(d[i].q)) for i in range(3)]
        be = np.empty((3, 1, 1, 1), dtype=object)
        for i, bv in enumerate([F(1, 3), F(-1, 2), F(1, 5)]):
            be[i, 0, 0, 0] = SymReal(tm.const(bv))
        pre = [tm.lt(tm.ZERO, al[0, 0, 0].t), tm.lt(tm.const(-1), p.t), tm.lt(p.t, tm.ONE)]
        rel = watch(AurelCore(UninterpretedFD(), verbose=False, tetrad='fluid'))
        rel.data.update(alpha=al, betaup3=be, gammadown3=ga, w_lorentz=gr.grid(W), velx=gr.grid(v[0]), vely=gr.grid(v[1]),
                        velz=gr.grid(v[2]))
        rel.freeze_data()
        c = Ctx(pre=pre, fork=False, decide_timeout=20, assume_undecided=True)
        obs, hunt = [], []
        with use_ctx(c):
            e = rel.tetrad_base()
            g4 = E(rel['gdown4'])
            pre2 = pre + list(c.pc)
            for a in range(4):
                for b in range(a, 4):
                    ip = sum(g4[m, n] * E(e[a])[m] * E(e[b])[n] for m in range(4) for n in range(4))
                    ob = Ob(f'fluid tetrad <e{a},e{b}>', ip, (-1 if a == 0 else 1) if a == b else 0, pre2,
                            group='fluid-adapted tetrad orthonormal for g (slice, moving fluid)')
                    (obs if (a == 0 or (a, b) == (1, 1)) else hunt).append(ob)
            # the helpers hand out (combinations of) cached arrays - e0 is the cached uup4: after tetrad_base() and
            # null_vector_base() every cached entry must still hold what was stored (no in-place modification)
            rel.null_vector_base()
            rel.tetrad_base()
            class _FloatRun:
                """float twin of this instance for replays (constant fields at the model values)"""
                resolutions = ((5, 0.1),)

                @staticmethod
                def float_rel(model, N=5, h=0.1):
                    fdn = grid_fd(N, h, 2)
                    r = AurelCore(fdn, verbose=False, tetrad='fluid')

                    def fl(a):
                        out = np.zeros(a.shape[:-3] + fdn.x.shape)
                        for ix in np.ndindex(*a.shape[:-3]):
                            e_ = a[ix + (0, 0, 0)]
                            out[ix] = float(eval_terms([e_.t], model)[0]) if isinstance(e_, SymReal) else float(e_)
                        return out
                    r.data.update(alpha=fl(al), betaup3=fl(be), gammadown3=fl(ga), w_lorentz=fl(gr.grid(W)), velx=fl(gr.grid(v[0])),
                                  vely=fl(gr.grid(v[1])), velz=fl(gr.grid(v[2])))
                    r.freeze_data()
                    return r

            def _after_helpers(r, key_, ix):
                r[key_]
                r.null_vector_base()
                r.tetrad_base()
                return r[key_][ix]
            for key_, idx_, old_, new_ in rel.data.changed():
                obs.append(Ob(f'cached {key_}{list(idx_[:-3])} unchanged by tetrad_base()/null_vector_base()', new_, old_, pre2,
                              get=lambda r, key_=key_, ix=tuple(idx_[:-3]): _after_helpers(r, key_, ix),
                              group='helpers do not modify cached entries (fluid tetrad)', meta=dict(run=_FloatRun, fresh_rel=True)))
            obs.append(Ob('cached entries compared after tetrad_base()/null_vector_base()', tm.const(len(rel.data._snap)), tm.const(len(rel.data._snap)),
                          pre2, group='helpers do not modify cached entries (fluid tetrad)'))

        def sampler(rng):
            return {'p': F(rng.choice([-5, -3, -1, 1, 2, 4, 6]), 8), 'al': F(rng.randint(4, 16), 8)}
        blocks.append(dict(name='tetrad-fluid', obs=obs, hunt=hunt, ctx=c, pre=pre2, run=None, sampler=sampler,
                           assumed=len(c.assumed)))
    return blocks


def main(report, tier, seed, workers, calibrate=False):
    orientation = 1
    report.bounds = dict(grid='1x1x1', parts=['(a2) E/B assembly on free trace-free E,B', '(a3) Riemann-branch formula on free '
                                               'Riemann/Ricci', '(b) trace-free + symmetries', '(d) tetrad on metric slices',
                                               '(e) Weyl scalars as contractions'],
                         outside=['polar axis x^2+y^2 = 0', 'L, K, N invariants (not tetrad invariant)', 'float round-off'])
    report.assumptions += ['lapse > 0, metric positive definite', 'floats are reals; 1/6, 1/3 literals exact by the literal policy',
                           'trace / symmetry obligations are decided with the metric value fixed to designed rational '
                           'matrices (lapse, shift, curvature parameters free)']
    report.stubs += ['aurel.*.np -> symx.npproxy', 'cut points: st_Riemann_down4 / st_Ricci_down4 / eweyl_n_down3 / '
                     'bweyl_n_down3 / st_Weyl_down4 injected as free symbolic tensors', 'null_vector_base stubbed with a free '
                     'complex null tetrad in the Weyl_Psi cut']
    with FuncTrace() as ft:
        blocks = build(tier)
        blocks += tetrad_blocks(tier)
        blocks += fluid_tetrad_blocks(tier)
    report.functions |= ft.seen
    report.extra['source_sha1'] = source_digest(FILES)
    to = 60 if tier == 'quick' else 400
    envs = [env_metric(0), env_metric(1)]
    for blk in blocks:
        if blk['pre']:
            vacuity(report, blk['pre'], name=f"{blk['name']}:pre")
        rungs = [dict(name='full', envs=[None], timeout=to),
                 dict(name='slices:metric-value-fixed', envs=envs, timeout=2 * to)]
        if blk.get('sliced'):
            rungs = rungs[1:]
        # the magnetic part is compared up to the documented overall sign convention: handled below
        obs = blk['obs']
        process_jet(report, blk['run'], [o for o in obs if o.meta.get('sign') != 'either'], rungs,
                    sampler=blk['sampler'], workers=workers, seed=seed, verbose=bool(calibrate), validate=0)
        either = [o for o in obs if o.meta.get('sign') == 'either']
        if either:
            orientation = sign_either(report, either, rungs, blk, workers, seed, calibrate)
            report.extra['levi_civita_orientation_accepted'] = orientation
        if blk.get('hunt'):
            hunt_only(report, blk, workers, seed)
        if blk.get('assumed'):
            report.assumptions.append(f"{blk['name']}: {blk['assumed']} Gram-Schmidt norm(s) assumed non-zero (solver could neither refute nor realise a zero)")
        report.extra.setdefault('branch_decisions', {})[blk['name']] = blk['ctx'].decision_queries
    # (a1) with the orientation fixed by the assembly check
    calib = load_calib(PID)
    with FuncTrace() as ft2:
        eb = eb_blocks(tier, orientation)
        inv = invariants_blocks(tier)
    report.functions |= ft2.seen
    all_obs = []
    for blk in eb:
        S = blk['setup']
        sl = S.slices()
        vacuity(report, blk['pre'], name=f"{blk['name']}:pre")
        rungs = [dict(name='full', envs=[None], timeout=40 if tier == 'quick' else 300),
                 dict(name='slices:metric-value-fixed', envs=[sl[0][1], sl[1][1]], timeout=200 if tier == 'quick' else 900),
                 dict(name='slices:metric-jets-fixed|gauge-fixed', envs=[sl[3][1], sl[4][1], sl[5][1]],
                      timeout=400 if tier == 'quick' else 900)]
        if tier == 'quick':
            rungs = rungs[2:]          # quick: the cheap complementary slices only
        process_jet(report, blk['run'], blk['obs'], rungs, sampler=blk['sampler'], workers=workers,
                    calib=calib if tier != 'quick' else None, seed=seed, verbose=bool(calibrate))
        all_obs += blk['obs']
        if calibrate:
            save_calib(PID, all_obs, rungs)
    for blk in inv:
        rungs = [dict(name='full', envs=[None], timeout=120 if tier == 'quick' else 600)]
        process_jet(report, None, blk['obs'], rungs, sampler=None, workers=workers, seed=seed, validate=0,
                    verbose=bool(calibrate))
        w = blk['witness']
        r = solver.check(w.query(), timeout_s=60, want_model=False)
        report.vacuity.append(dict(name=w.name, expect='sat', got=r['verdict']))
    pick = [ob for ob in blocks[0]['obs']][5]
    witness_sat(report, pick, 'Weyl component + 1 (wrong)')


def hunt_only(report, blk, workers, seed):
    """obligations that no rung settles on the unchanged tree: bug hunting only (a solver-confirmed counterexample is
    a violation, anything else is recorded as not claimed)."""
    import random
    from symx.harness import solve_ladder
    obs = blk['hunt']
    solve_ladder(obs, [dict(name='full', envs=[None], timeout=20)], sampler=blk['sampler'], rng=random.Random(seed), workers=workers)
    unsettled = []
    for o in obs:
        r = o.result
        if r['verdict'] == 'sat':
            from .common import handle_sat
            report.obs.append(dict(name=o.name, verdict='sat', seconds=r['seconds'], backend='z3old', sha=r['sha'], group=o.group,
                                   trivial=False, kind='identity', detail=r['rung']))
            handle_sat(report, None, o)
        elif r['verdict'] == 'unsat':
            report.obs.append(dict(name=o.name, verdict='unsat', seconds=r['seconds'], backend='z3old', sha=r['sha'], group=o.group,
                                   trivial=False, kind='identity', detail=r['rung']))
        else:
            unsettled.append(o.name)
    report.extra.setdefault('hunt_only_unsettled', []).extend(unsettled)


def sign_either(report, obs, rungs, blk, workers, seed, calibrate):
    """B is defined up to the orientation convention of the Levi-Civita tensor: accept B or -B, but the
    same sign for all components."""
    from symx.harness import solve_ladder
    plus = obs
    minus = [Ob(o.name + ' (opposite orientation)', o.impl, tm.neg(o.oracle), o.pre, group=o.group) for o in obs]
    for variant in (plus, minus):
        for o in variant:
            o.result = None
        solve_ladder(variant, rungs, sampler=None, workers=workers)
        if all(o.result['verdict'] == 'unsat' for o in variant):
            for o in variant:
                report.obs.append(dict(name=o.name, verdict='unsat', seconds=round(o.result['seconds'], 3),
                                       backend='z3old', sha=o.result['sha'], group=o.group,
                                       trivial=o.result.get('trivial', False), kind='identity', detail=o.result['rung']))
            return 1 if variant is plus else -1
    # neither orientation works for all components
    for o in plus:
        report.obs.append(dict(name=o.name, verdict=o.result['verdict'], seconds=round(o.result['seconds'], 3),
                               backend='z3old', sha=o.result['sha'], group=o.group, trivial=False, kind='identity',
                               detail=o.result['rung']))
        if o.result['verdict'] == 'unknown':
            report.inconc(o.name, 'not settled for either orientation')
    if any(o.result['verdict'] == 'sat' for o in minus) and any(o.result['verdict'] == 'sat' for o in plus):
        from .common import handle_sat
        bad = [o for o in plus if o.result['verdict'] == 'sat'][0]
        handle_sat(report, None, bad)
    return 1


def replay_payload(payload):
    from .common import model_from_json
    from symx.harness import eval_terms
    fl = fluid_tetrad_blocks('quick')
    for b_ in fl:
        b_['obs'] = b_['obs'] + b_['hunt']
    blocks = build('quick') + tetrad_blocks('quick') + fl + eb_blocks('thorough', int(payload.get('orientation', 1))) + invariants_blocks('thorough')
    model = model_from_json(payload['model'])
    for blk in blocks:
        for ob in blk['obs']:
            if ob.name == payload['obligation']:
                a, b = eval_terms([ob.impl, ob.oracle], model)
                print(f"impl={a} oracle={b}")
                return 1 if a != b else 0
    return 3


# ------------------------------------------------------------------------------------------------
# (a1) electric / magnetic parts computed from 3+1 data == contractions of the reference Weyl tensor
def eb_blocks(tier, orientation):
    blocks = []
    with patched():
        S = gr.Setup(order=2, vacuum=False, matter='T')
        st = S.st
        c = Ctx(pre=S.pre, fork=False)
        obs = []
        with use_ctx(c):
            rel = S.run.symbolic_rel()
            Cw = st.Weyl_down
            n = st.normal_up
            gi4 = oracle.truncate(st.ginv, 0)
            Ee = rel['eweyl_n_down3']
            Bb = rel['bweyl_n_down3']
            compsE = [(0, 0), (0, 1), (1, 2)] if tier == 'quick' else [(i, j) for i in range(3) for j in range(i, 3)]
            compsB = [(0, 1), (2, 2)] if tier == 'quick' else [(i, j) for i in range(3) for j in range(3)]
            for i, j in compsE:
                want = sum(Cw[i + 1, m, j + 1, nu] * n[m] * n[nu] for m in range(4) for nu in range(4))
                obs.append(Ob(f'eweyl_n_down3[{i},{j}]', T0(Ee[i, j, 0, 0, 0]), want, S.pre,
                              get=lambda r, i=i, j=j: r['eweyl_n_down3'][i, j],
                              group='eweyl_n_down3 == C_{i mu j nu} n^mu n^nu (reference Weyl)'))
            a0 = st.alpha.trunc(0)
            sg = oracle.det(oracle.truncate(st.gamma, 0)).sqrt()
            eps4 = oracle.arr((4, 4, 4, 4))
            for p in itertools.product(range(4), repeat=4):
                eps4[p] = oracle.perm_sign(p) * a0 * sg if len(set(p)) == 4 else 0
            Cup = np.einsum('ae,bf,efcd->abcd', gi4, gi4, Cw)
            for i, j in compsB:
                Bc = 0
                for m, a, b, nu in itertools.product(range(4), repeat=4):
                    e = eps4[i + 1, m, a, b]
                    if isinstance(e, int) and e == 0:
                        continue
                    Bc = Bc + e * Cup[a, b, j + 1, nu] * n[m] * n[nu]
                obs.append(Ob(f'bweyl_n_down3[{i},{j}]', T0(Bb[i, j, 0, 0, 0]), Bc * 0.5 * orientation, S.pre,
                              get=lambda r, i=i, j=j: r['bweyl_n_down3'][i, j],
                              group='bweyl_n_down3 == 1/2 eps C n n (reference Weyl, orientation of the E/B assembly)'))
            for i in range(3):
                for j in range(i + 1, 3):
                    obs.append(Ob(f'bweyl_n_down3 symmetric [{i},{j}]', T0(Bb[i, j, 0, 0, 0]), T0(Bb[j, i, 0, 0, 0]),
                                  S.pre, group='bweyl_n_down3 symmetric'))
            gi3 = oracle.truncate(st.gammainv, 0)
            obs.append(Ob('bweyl_n_down3 trace-free', sum(gi3[i, j] * T0(Bb[i, j, 0, 0, 0]) for i in range(3) for j in range(3)),
                          0, S.pre, group='bweyl_n_down3 trace-free'))
            if tier == 'thorough':
                obs.append(Ob('eweyl_n_down3 trace-free',
                              sum(gi3[i, j] * T0(Ee[i, j, 0, 0, 0]) for i in range(3) for j in range(3)),
                              0, S.pre, group='eweyl_n_down3 trace-free'))
        blocks.append(dict(name='EB-from-3+1', obs=obs, ctx=c, pre=S.pre, run=S.run, sampler=S.sampler(), setup=S))
    return blocks


def lorentz_families():
    """Rational one-parameter Lorentz transformations L[a][b] acting on tetrad labels (e'_a = L_a^b e_b)."""
    p = sym('p')
    fams = {}
    pre = []
    # rotation about e1 (mixes e2, e3): Cayley parameter
    d = 1 + p * p
    cs, sn = (1 - p * p) / d, 2 * p / d
    I4 = [[1 if a == b else 0 for b in range(4)] for a in range(4)]
    L = [row[:] for row in I4]
    L[2][2], L[2][3], L[3][2], L[3][3] = cs, sn, -sn, cs
    fams['rotation about e1'] = (L, [])
    L = [row[:] for row in I4]
    L[1][1], L[1][2], L[2][1], L[2][2] = cs, sn, -sn, cs
    fams['rotation about e3'] = (L, [])
    # boost along e1: cosh = (1+p^2)/(1-p^2), sinh = 2p/(1-p^2), |p| < 1
    d2 = 1 - p * p
    ch, sh = (1 + p * p) / d2, 2 * p / d2
    L = [row[:] for row in I4]
    L[0][0], L[0][1], L[1][0], L[1][1] = ch, sh, sh, ch
    fams['boost along e1'] = (L, [tm.lt(tm.neg(tm.ONE), p.t), tm.lt(p.t, tm.ONE)])
    L = [row[:] for row in I4]
    L[0][0], L[0][3], L[3][0], L[3][3] = ch, sh, sh, ch
    fams['boost along e3'] = (L, [tm.lt(tm.neg(tm.ONE), p.t), tm.lt(p.t, tm.ONE)])
    return fams


A_BASE = [  # committed rational invertible matrices A; gamma = A^T A, so columns of A^-1 are orthonormal
    [[2, 1, 0], [0, 1, 1], [1, 0, 3]],
    [[1, 2, -1], [0, 3, 1], [0, 0, 2]],
]


def invariants_blocks(tier):
    """(f) I and J do not depend on the orthonormal tetrad (injected, Lorentz-parametrised)."""
    from aurel.core import AurelCore
    blocks = []
    with patched(atoms=dict(sqrt_const=lambda x: SymReal(tm.sqrt(tm.const(x))))):
        for ai, A in enumerate(A_BASE if tier == 'thorough' else A_BASE[:1]):
            Am = np.array([[F(x) for x in row] for row in A], dtype=object)
            gam = Am.T.dot(Am)
            Ainv = oracle.inverse(np.array([[SymReal(tm.const(x)) for x in row] for row in A], dtype=object))
            ga = np.empty((3, 3, 1, 1, 1), dtype=object)
            for i in range(3):
                for j in range(3):
                    ga[i, j, 0, 0, 0] = SymReal(tm.const(gam[i, j]))
            X = E(symarray('X', (3, 3), symmetric=True))
            Y = E(symarray('Y', (3, 3), symmetric=True))
            g3 = E(ga)
            gi3 = oracle.inverse(g3)
            trX = sum(gi3[i, j] * X[i, j] for i in range(3) for j in range(3))
            trY = sum(gi3[i, j] * Y[i, j] for i in range(3) for j in range(3))
            Ef, Bf = oracle.arr((3, 3)), oracle.arr((3, 3))
            for i in range(3):
                for j in range(3):
                    Ef[i, j] = X[i, j] - g3[i, j] * trX / 3
                    Bf[i, j] = Y[i, j] - g3[i, j] * trY / 3
            base = [np.array([1, 0, 0, 0], dtype=object)]
            for k in range(3):
                base.append(np.array([0] + [Ainv[i, k] for i in range(3)], dtype=object))
            fams = lorentz_families()
            names = list(fams) if tier == 'thorough' else ['rotation about e1', 'boost along e1', 'rotation about e3']

            def invariants(tetrad):
                rel = AurelCore(UninterpretedFD(), verbose=False)
                rel.data['gammadown3'] = ga
                rel.data['eweyl_n_down3'] = gr.grid(Ef)
                rel.data['bweyl_n_down3'] = gr.grid(Bf)
                rel.freeze_data()
                rel.tetrad_base = lambda: tuple(gr.grid(np.array([SymReal(tm.const(x)) if not isinstance(x, SymReal) else x
                                                                  for x in v], dtype=object)) for v in tetrad)
                return rel['Weyl_invariants']
            c = Ctx(pre=[], fork=False)
            with use_ctx(c):
                inv0 = invariants(base)
                for nm in names:
                    L, pre = fams[nm]
                    tet = []
                    for a in range(4):
                        v = np.array([0, 0, 0, 0], dtype=object)
                        for b in range(4):
                            if isinstance(L[a][b], int) and L[a][b] == 0:
                                continue
                            v = v + L[a][b] * base[b]
                        tet.append(v)
                    inv1 = invariants(tet)
                    obs = []
                    for key in ('I', 'J'):
                        z0, z1 = inv0[key][0, 0, 0], inv1[key][0, 0, 0]
                        obs.append(Ob(f'{key} invariant under {nm} (A{ai}) real', z1.re, z0.re, pre,
                                      group=f'Weyl invariants I, J independent of the tetrad ({nm})'))
                        obs.append(Ob(f'{key} invariant under {nm} (A{ai}) imag', z1.im, z0.im, pre,
                                      group=f'Weyl invariants I, J independent of the tetrad ({nm})'))
                    z0, z1 = inv0['L'][0, 0, 0], inv1['L'][0, 0, 0]
                    wit = Ob(f'L NOT invariant under {nm} (A{ai})', z1.re, z0.re, pre, group='witness')
                    blocks.append(dict(name=f'invariants-{nm}-A{ai}', obs=obs, ctx=c, pre=pre, run=None, sampler=None,
                                       witness=wit))
    return blocks
