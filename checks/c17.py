"""C17 - bundled analytic spacetimes are what they claim to be.

Each module's numpy functions are executed on Jet-valued coordinates (t, x, y, z) - the coordinate
functions themselves as order-2 4D jets - so the returned metric carries its exact derivatives.
Module-level numeric constants that enter products (fq, kappa, M, t_today ...) are replaced by
symbols (with the relations the module computes between them), so the identities are exact and hold
for every value of those constants; float literals inside the functions follow the literal policy.
Obligations: K_ij = -(d_t gamma_ij - L_beta gamma_ij)/(2 alpha); G_{mu nu} + Lambda g_{mu nu} =
kappa T_{mu nu} for the module's own metric (reference Einstein tensor from symx.oracle); numeric ==
symbolic (analytical=True) form of the metric; shipped closed-form scalars."""
import contextlib
import importlib
import io
import itertools
import random
from fractions import Fraction as F

import numpy as np
import sympy as sp

from symx import term as tm, oracle, solver
from symx.sym import Ctx, use_ctx, sym, SymReal
from symx.jet import Jet
from symx.npproxy import patched
from symx.harness import Ob, FuncTrace, source_digest, solve_ladder, eval_terms
from . import gr

PID = 'C17'
MODS = ['Conformally_flat', 'Non_diagonal', 'Harvey_Tsoubelis', 'Collins_Stewart', 'Schwarzschild_isotropic', 'EdS', 'LCDM', 'Rosquist_Jantzen', 'Szekeres', 'ICPertFLRW']
FILES = [f'src/aurel/solutions/{m}.py' for m in MODS]
# Szekeres: K_xx, K_yy, the numeric/symbolic metric and the vanishing components are decided; the remaining identities (they
# need sinh^(1/3), cosh, the hypergeometric contract and the LCDM roots together) are not settled by z3 in reach -> hunt only
HUNT_ONLY = {'Szekeres': ('Kdown3[2,2]', 'Einstein[0,0]', 'Einstein[0,1]', 'Einstein[0,2]', 'Einstein[0,3]', 'Einstein[1,1]', 'Einstein[1,2]',
                          'Einstein[2,2]', 'Einstein[3,3]')}
OUT_OF_REACH = {
    'ICPertFLRW (Einstein equations)': 'first-order perturbation, not an exact solution: only K_ij = -(d_t gamma_ij)/2 on the EdS background and '
                                       'the symmetry of its metric are claimed',
}


HYP = {}


def hyp_name(a, b, c):
    name = f'hyp2f1[{a},{b};{c}]'
    if name not in HYP:
        import scipy.special as _sc
        HYP[name] = (a, b, c)
        tm.FN_EVAL[name] = lambda z, a=a, b=b, c=c: float(_sc.hyp2f1(float(a), float(b), float(c), z))
    return name


class SCStub:
    """scipy.special for Szekeres: hyp2f1(a, b; a+1; z) is an uninterpreted atom F(z) constrained only by its documented
    contract (DLMF 8.17.7-8: z^a F(z) / a is the incomplete beta function B_z(a, 1-b)), i.e.
        d/dz [z^a F(z)] = a z^(a-1) (1-z)^(-b)   <=>   F'(z) = (a/z) ((1-z)^(-b) - F(z)),
    F'' by differentiating that.  The rule is compared with scipy numerically on every run (stub validation)."""
    def hyp2f1(self, a, b, c, z):
        a, b, c = (tm.rationalise(v) for v in (a, b, c))
        if c != a + 1:
            raise NotImplementedError('hyp2f1 contract only for c = a + 1')
        name = hyp_name(a, b, c)

        def one(zj):
            if not isinstance(zj, Jet):
                raise NotImplementedError('hyp2f1 of a non-jet')
            if zj.order > 2:
                raise NotImplementedError('hyp2f1 contract differentiated to order 2 only')
            z0 = zj.c[()]
            F0 = tm.fn(name, [z0])
            om = tm.sub(tm.ONE, z0)
            w = tm.rpow(om, -b)
            w1 = tm.rpow(om, -b - 1)
            rz = tm.recip(z0)
            F1 = tm.scale(tm.mul(rz, tm.sub(w, F0)), a)
            F2 = tm.add(tm.scale(tm.mul(tm.ipow(rz, 2), tm.sub(w, F0)), -a),
                        tm.scale(tm.mul(rz, tm.sub(tm.scale(w1, b), F1)), a))
            return zj.compose([F0, F1, F2])
        if isinstance(z, np.ndarray):
            out = np.empty(z.shape, dtype=object)
            for idx in np.ndindex(*z.shape):
                out[idx] = one(z[idx])
            return out
        return one(z)


def validate_hyp_stub():
    """the differential rule of SCStub against scipy (central differences), three points z < 0"""
    import scipy.special as _sc
    worst = 0.0
    a, b, c = 5 / 6, 3 / 2, 11 / 6
    for z in (-0.3, -2.0, -15.0):
        h = 1e-5 * max(1.0, abs(z))
        Fm, F0_, Fp = (_sc.hyp2f1(a, b, c, z + d) for d in (-h, 0.0, h))
        d1 = (Fp - Fm) / (2 * h)
        d2 = (Fp - 2 * F0_ + Fm) / h ** 2
        r1 = (a / z) * ((1 - z) ** (-b) - F0_)
        r2 = -(a / z ** 2) * ((1 - z) ** (-b) - F0_) + (a / z) * (b * (1 - z) ** (-b - 1) - r1)
        worst = max(worst, abs(d1 - r1) / max(abs(r1), 1e-12), abs(d2 - r2) / max(abs(r2), 1e-12) * 1e-3)
    return worst


def T0(x):
    return x.trunc(0) if isinstance(x, Jet) else x


def coords():
    t = Jet.coordinate(0, sym('t'), 4, 2)
    xs = []
    for i, n in enumerate('xyz'):
        a = np.empty((1, 1, 1), dtype=object)
        a[0, 0, 0] = Jet.coordinate(i + 1, sym(n), 4, 2)
        xs.append(a)
    return t, xs


def setup(modname):
    """-> (module, overrides dict, preconditions, sampler ranges)"""
    mod = importlib.import_module('aurel.solutions.' + modname)
    t = sym('t')
    pre = [tm.lt(tm.ZERO, t.t)]
    over = {}
    if hasattr(mod, 'kappa'):
        k = sym('kappa')
        over['kappa'] = k
        pre.append(tm.lt(tm.ZERO, k.t))
    if modname == 'Non_diagonal':
        fq = sym('fq')
        over['fq'] = fq
        pre += [tm.lt(tm.ZERO, fq.t), tm.le(tm.ONE, t.t)]       # t >= 1 keeps A t > sqrt(2) (coordinate singularity)
    if modname == 'Collins_Stewart':
        # gamma = 4/3 exactly; p1, p2 are rational; s = sqrt((2-gamma)(3 gamma-2)) is an atom with s^2 = 4/3
        s = sym('s')
        over.update(gamma=SymReal(tm.const(F(4, 3))), p1=F(1, 4), p2=F(5, 8), s=s)
        pre += [tm.lt(tm.ZERO, s.t), tm.eq((s * s).t, tm.const(F(4, 3)))]
    if modname == 'Schwarzschild_isotropic':
        M = sym('M')
        over['M'] = M
        x, y, z = sym('x'), sym('y'), sym('z')
        pre += [tm.lt(tm.ZERO, M.t), tm.lt((M * M).t, (4 * (x * x + y * y + z * z)).t)]     # outside the horizon r > M/2
    if modname == 'Rosquist_Jantzen':
        # the module's T_mn is the Einstein tensor of its metric for EVERY value of its constants s, q, k, m (measured:
        # the relations the module computes between them from gamma are not needed), so they are free symbols here -
        # the claim covers the shipped gamma = 1.22 and every other choice.  s and q must be symbols anyway so that
        # every power of t in the module is t**(a + b s + c q) with integer a, b, c: a monomial in t, t**s, t**q.
        k_, m_, s_, q_ = sym('k'), sym('m'), sym('s'), sym('q')
        over.update(s=s_, q=q_, k=k_, m=m_)
        pre += [tm.lt(tm.ZERO, k_.t), tm.lt(tm.ZERO, m_.t)]
    if modname == 'LCDM':
        # Omega_m and the EdS age are free (0 < Omega_m < 1, t_EdS > 0); the other constants as the module derives them
        Om, tE = sym('Om'), sym('t_today')
        H = 2 / (3 * tE)
        over.update(Omega_m_today=Om, Omega_l_today=1 - Om, Hprop_today=H, t_today_EdS=tE, Lambda=3 * (1 - Om) * H * H,
                    a_today=SymReal(tm.ONE))
        pre += [tm.lt(tm.ZERO, Om.t), tm.lt(Om.t, tm.ONE), tm.lt(tm.ZERO, tE.t)]
    if modname == 'Szekeres':
        # built on LCDM (same free Omega_m, t_EdS); Amp, k free; tauC = sqrt(3 Lambda / 4) = sqrt(Omega_l) / t_EdS is given in the
        # form LCDM uses inside its own sinh so that both modules share one exp atom; B = (3/4) H0^2 (Ol Om^2)^(1/3) is written
        # with LCDM's root atom: (Ol Om^2)^(1/3) = Ol (Om/Ol)^(2/3).  (the module-level float values of these constants are
        # compared with these relations in constant_relations())
        Om, tE, Amp, kk = sym('Om'), sym('t_today'), sym('Amp'), sym('kwave')
        H = 2 / (3 * tE)
        Ol = 1 - Om
        c2 = SymReal(tm.root((Om / Ol).t, 3))
        from symx.npproxy import NPProxy
        over.update({'LCDM.Omega_m_today': Om, 'LCDM.Omega_l_today': Ol, 'LCDM.Hprop_today': H, 'LCDM.t_today_EdS': tE,
                     'LCDM.Lambda': 3 * Ol * H * H, 'LCDM.a_today': SymReal(tm.ONE), 'LCDM.kappa': over.get('kappa', sym('kappa')),
                     'Amp': Amp, 'k': kk, 'tauC': Ol.sqrt() / tE, 'B': F(3, 4) * H * H * Ol * c2 * c2, 'sc': SCStub()})
        over.pop('kappa', None)
        pre += [tm.lt(tm.ZERO, Om.t), tm.lt(Om.t, tm.ONE), tm.lt(tm.ZERO, tE.t), tm.lt(tm.ZERO, sym('kappa').t)]
    if modname == 'EdS':
        tt = sym('t_today')
        over.update(t_today=tt, Hprop_today=2 / (3 * tt), a_today=SymReal(tm.ONE), w=0, Omega_m_EdS=1)
        pre += [tm.lt(tm.ZERO, tt.t)]
    return mod, over, pre


def module_np_modules(modname):
    if modname == 'Szekeres':
        return ('aurel.solutions.Szekeres', 'aurel.solutions.LCDM', 'aurel.maths')
    return ('aurel.solutions.' + modname, 'aurel.maths')


def _target(mod, key):
    """override key 'attr' -> (mod, 'attr'); 'LCDM.attr' -> (aurel.solutions.LCDM, 'attr')"""
    if '.' in key:
        m_, a_ = key.split('.')
        return importlib.import_module('aurel.solutions.' + m_), a_
    return mod, key


BASE_SYMBOLS = {'kappa': ('kappa', 'LCDM.kappa'), 'fq': ('fq',), 'M': ('M',), 't_today': ('t_today', 't_today_EdS', 'LCDM.t_today_EdS'),
                's': ('s',), 'q': ('q',), 'k': ('k',), 'm': ('m',), 'Om': ('Omega_m_today', 'LCDM.Omega_m_today'), 'Amp': ('Amp',), 'kwave': ('k',)}


def constant_relations(modname):
    """The identities are proved with module constants as symbols tied by the relations the harness states.  Here the module's
    OWN numeric constants (computed at import) are compared with those relations: every overridden constant that is an
    expression must evaluate, at the module's numeric base constants, to the module's numeric value (relative 1e-12).
    -> list of (constant, module value, value under the stated relation)"""
    import math
    mod, over, pre = setup(modname)
    env = {}
    for symname, attrs in BASE_SYMBOLS.items():
        for a_ in attrs:
            try:
                m_, at_ = _target(mod, a_)
            except Exception:  # noqa
                continue
            if hasattr(m_, at_) and isinstance(getattr(m_, at_), (int, float, np.floating)):
                env[symname] = float(getattr(m_, at_))
                break
    if modname == 'Szekeres':
        env['kwave'] = float(mod.k)
    bad = []
    for key, val in over.items():
        if isinstance(val, SymReal):
            term = val.t
        elif isinstance(val, F):
            term = tm.const(val)
        else:
            continue
        if term.op == 'v':
            continue                                   # free symbol: any value is covered
        m_, at_ = _target(mod, key)
        have = getattr(m_, at_)
        if not isinstance(have, (int, float, np.floating)):
            continue
        try:
            want = float(tm.evaluate([term], env, exact=False)[0])
        except KeyError:
            continue
        if not math.isclose(float(have), want, rel_tol=1e-12, abs_tol=1e-300):
            bad.append((key, float(have), want))
    return bad


def build_module(modname, tier):
    mod, over, pre = setup(modname)
    saved = {k: getattr(*_target(mod, k)) for k in over}
    obs = []
    try:
        for k, v in over.items():
            setattr(*_target(mod, k), v)
        with patched(modules=module_np_modules(modname)):
            c = Ctx(pre=pre, fork=False, decide_timeout=30)
            with use_ctx(c):
                t, (x, y, z) = coords()
                gam = gr.ungrid(mod.gammadown3(t, x, y, z))
                alpha = gr.ungrid(mod.alpha(t, x, y, z)) if hasattr(mod, 'alpha') else 1
                if isinstance(alpha, np.ndarray):
                    alpha = alpha[()]
                alpha_j = alpha if isinstance(alpha, Jet) else Jet.constant(alpha, 4, 2)
                beta_j = np.array([Jet.constant(0, 4, 2) for _ in range(3)], dtype=object)
                gj = oracle.arr((3, 3))
                for i in range(3):
                    for j in range(3):
                        e = gam[i, j]
                        gj[i, j] = e if isinstance(e, Jet) else Jet.constant(e, 4, 2)
                dom = oracle.spd_preconditions([[gj[i, j].c[()] for j in range(3)] for i in range(3)]) + [tm.lt(tm.ZERO, alpha_j.c[()])]
                pre = pre + [d_ for d_ in dom if d_ is not tm.TRUE]
                c.pre = list(pre)
                st = oracle.Spacetime(alpha_j, beta_j, gj)
                # (1) extrinsic curvature
                if hasattr(mod, 'Kdown3'):
                    K = gr.ungrid(mod.Kdown3(t, x, y, z))
                    Kor = st.Kdown
                    for i in range(3):
                        for j in range(3):                 # every entry of the returned matrix, not only the upper triangle
                            obs.append(Ob(f'{modname}: Kdown3[{i},{j}]', T0(K[i, j]), T0(Kor[i, j]), pre,
                                          group=f'{modname}: K_ij == -(d_t gamma_ij)/(2 alpha)'))
                # (2) Einstein's equations
                kap = over.get('kappa', over.get('LCDM.kappa', 8 * np.pi))
                Lam = over.get('Lambda', over.get('LCDM.Lambda', getattr(mod, 'Lambda', 0.0))) if modname not in ('Non_diagonal',) else 0.0
                g0 = oracle.truncate(st.g, 0)
                if hasattr(mod, 'Tdown4'):
                    Tm = gr.ungrid(mod.Tdown4(t, x, y, z))
                elif hasattr(mod, 'rho'):
                    press = getattr(mod, 'press', lambda *a_: 0)           # LCDM: dust (no press function)
                    try:
                        rho = mod.rho(t, x, y, z)
                        prs = press(t, x, y, z)
                    except TypeError:
                        rho, prs = mod.rho(t), press(t)
                    rho = gr.ungrid(rho)[()] if isinstance(rho, np.ndarray) else rho
                    prs = gr.ungrid(prs)[()] if isinstance(prs, np.ndarray) else prs
                    a0 = T0(alpha_j)
                    nd = [-a0, 0, 0, 0]
                    Tm = oracle.arr((4, 4))
                    for a in range(4):
                        for b in range(4):
                            Tm[a, b] = T0(rho) * nd[a] * nd[b] + T0(prs) * (g0[a, b] + nd[a] * nd[b])
                else:
                    Tm = None
                if Tm is not None:
                    G = st.Einstein
                    for a in range(4):
                        for b in range(4):                 # every entry of the returned matrix
                            lhs = G[a, b] + Lam * g0[a, b]
                            rhs = kap * T0(Tm[a, b])
                            obs.append(Ob(f'{modname}: Einstein[{a},{b}]', rhs, lhs, pre,
                                          group=f'{modname}: kappa T_mn == G_mn + Lambda g_mn'))
                # (3) numeric vs symbolic form
                if 'analytical' in mod.gammadown3.__code__.co_varnames:
                    ts, xs_, ys, zs = sp.symbols('t x y z', positive=False)
                    # the sympy form is evaluated with sympy symbols standing for the same constants
                    for k_, v_ in over.items():
                        if isinstance(v_, SymReal):
                            setattr(*_target(mod, k_), term_to_sympy(v_.t))
                        elif isinstance(v_, F):
                            setattr(*_target(mod, k_), sp.Rational(v_.numerator, v_.denominator))
                    try:
                        gs = mod.gammadown3(ts, xs_, ys, zs, analytical=True)
                    finally:
                        for k_, v_ in over.items():
                            setattr(*_target(mod, k_), v_)
                    amap = {ts: sym('t').t, xs_: sym('x').t, ys: sym('y').t, zs: sym('z').t}
                    for k, v in over.items():
                        pass
                    for i in range(3):
                        for j in range(i, 3):
                            try:
                                tr = sympy_to_term(gs[i, j], amap)
                            except ValueError as e:
                                obs.append(None)
                                continue
                            e = gam[i, j]
                            vt = e.c[()] if isinstance(e, Jet) else (e.t if isinstance(e, SymReal) else tm.const(e))
                            obs.append(Ob(f'{modname}: gammadown3 numeric==symbolic [{i},{j}]', vt, tr, pre,
                                          group=f'{modname}: numeric == symbolic metric'))
                # (4) shipped scalars
                if modname == 'Schwarzschild_isotropic':
                    Kr = gr.ungrid(mod.Kretschmann(t, x, y, z))
                    Kr = Kr[()] if isinstance(Kr, np.ndarray) else Kr
                    obs.append(Ob(f'{modname}: Kretschmann', T0(Kr), st.Kretschmann, pre, group=f'{modname}: shipped scalars'))
                if modname == 'Conformally_flat':
                    Rs = mod.st_RicciS(x)
                    Rs = gr.ungrid(Rs)[()] if isinstance(Rs, np.ndarray) else Rs
                    obs.append(Ob(f'{modname}: st_RicciS', T0(Rs), st.RicciS, pre, group=f'{modname}: shipped scalars'))
    finally:
        for k, v in saved.items():
            setattr(*_target(mod, k), v)
    bad = [o for o in obs if o is None]
    return [o for o in obs if o is not None], pre, len(bad)


def term_to_sympy(root):
    """constants of the harness (rational expressions in symbols) as sympy expressions over equally named symbols"""
    vals = {}
    for t in tm.reachable([root]):
        if t.op == 'c':
            v = sp.Rational(t.val.numerator, t.val.denominator)
        elif t.op == 'v':
            v = sp.Symbol(t.val)
        elif t.op == 'sum':
            c0, items = t.val
            v = sp.Rational(c0.numerator, c0.denominator)
            for a, (_, c) in zip(t.args, items):
                v = v + sp.Rational(c.numerator, c.denominator) * vals[a.id]
        elif t.op == 'prod':
            v = sp.Integer(1)
            for a, (_, e) in zip(t.args, t.val):
                v = v * vals[a.id] ** e
        elif t.op == 'recip':
            v = 1 / vals[t.args[0].id]
        elif t.op == 'sqrt':
            v = sp.sqrt(vals[t.args[0].id])
        elif t.op == 'root':
            v = vals[t.args[0].id] ** sp.Rational(1, t.val)
        else:
            raise ValueError(f'constant with {t.op} node')
        vals[t.id] = v
    return vals[root.id]


def sympy_to_term(e, amap):
    e = sp.sympify(e)
    if e in amap:
        return amap[e]
    if e.is_Integer or e.is_Rational:
        return tm.const(F(int(e.p), int(e.q)))
    if e.is_Float:
        return tm.const(float(e))
    if e.is_Add:
        return tm.addn([sympy_to_term(a, amap) for a in e.args])
    if e.is_Mul:
        r = tm.ONE
        for a in e.args:
            r = tm.mul(r, sympy_to_term(a, amap))
        return r
    if e.is_Pow:
        b, p = e.args
        if p.is_Integer:
            return tm.ipow(sympy_to_term(b, amap), int(p))
        if p.is_Rational:
            return tm.rpow(sympy_to_term(b, amap), F(int(p.p), int(p.q)))
        if p.is_Float:
            # sympy adds float exponents (x**(5/3) / x -> x**0.66666666666666674): read them as the small rational within 1e-14
            pf = F(float(p)).limit_denominator(64)
            if abs(float(pf) - float(p)) > 1e-14:
                pf = tm.rationalise(float(p))
            return tm.rpow(sympy_to_term(b, amap), pf)
        return tm.exp(tm.mul(sympy_to_term(p, amap), tm.log(sympy_to_term(b, amap))))
    if isinstance(e, sp.sin):
        return tm.fn('sin', [sympy_to_term(e.args[0], amap)])
    if isinstance(e, sp.cos):
        return tm.fn('cos', [sympy_to_term(e.args[0], amap)])
    if isinstance(e, sp.cosh):
        ex = tm.exp(sympy_to_term(e.args[0], amap))
        return tm.scale(tm.add(ex, tm.recip(ex)), F(1, 2))
    if isinstance(e, sp.hyper):
        (a_, b_), (c_,) = e.ap, e.bq
        return tm.fn(hyp_name(*(tm.rationalise(float(v)) for v in (a_, b_, c_))), [sympy_to_term(e.argument, amap)])
    if isinstance(e, sp.sinh):
        ex = tm.exp(sympy_to_term(e.args[0], amap))
        return tm.scale(tm.sub(ex, tm.recip(ex)), F(1, 2))
    if isinstance(e, sp.exp):
        return tm.exp(sympy_to_term(e.args[0], amap))
    if isinstance(e, sp.log):
        return tm.log(sympy_to_term(e.args[0], amap))
    if e.is_Symbol and str(e) in ('fq', 'kappa', 'M', 's', 't_today', 'w', 'k', 'm', 'q', 'Om', 'H', 'Amp', 'kwave'):
        return tm.var(str(e))
    raise ValueError(f'unsupported {e}')


def sampler_for(modname):
    def f(rng):
        env = {n: F(rng.choice([3, 5, 7, 9, 11]), 4) for n in ('t', 'kappa', 'fq', 'M', 't_today', 'k', 'm', 'Amp', 'kwave')}
        env.update(s=F(rng.choice([1, 2, 3]), 5), q=F(rng.choice([-1, 1, 2]), 7), Om=F(rng.choice([1, 2, 3]), 4))
        env.update({n: F(rng.choice([-7, -3, 2, 5, 9]), 4) for n in ('x', 'y', 'z')})
        if modname == 'Schwarzschild_isotropic':
            env['M'] = F(1, 2)
        return env
    return f


def icpert_obligations():
    """ICPertFLRW on the EdS background (where K_ij = -(d_t gamma_ij)/2 is an exact identity of the module's formulas: F = 5/2,
    H = 2/(3t)), with the curvature perturbation Rc a free time-independent jet and the module's fd argument replaced by exact
    differentiation: all 9 entries of Kdown3 against the time derivative of the module's own gammadown3; gammadown3 symmetric.
    (the module is a first-order initial-data approximation: Einstein's equations are not claimed for it)"""
    from symx.fd import JetFD
    from symx.jet import keys as jet_keys
    icp = importlib.import_module('aurel.solutions.ICPertFLRW')
    eds, over, pre = setup('EdS')
    saved = {k: getattr(eds, k) for k in over}
    obs = []
    try:
        for k, v in over.items():
            setattr(eds, k, v)
        with patched(modules=('aurel.solutions.ICPertFLRW', 'aurel.solutions.EdS', 'aurel.maths')):
            c = Ctx(pre=pre, fork=False, decide_timeout=30)
            with use_ctx(c):
                order = 3
                t = Jet.coordinate(0, sym('t'), 4, order)
                rc = Jet.fresh('Rc', 4, order)
                rc = Jet(4, order, {k: (tm.ZERO if 0 in k else v) for k, v in rc.c.items()})     # time independent
                Rc = np.empty((1, 1, 1), dtype=object)
                Rc[0, 0, 0] = rc
                fd = JetFD(4)
                gam = gr.ungrid(icp.gammadown3(eds, fd, t, Rc))
                K = gr.ungrid(icp.Kdown3(eds, fd, t, Rc))
                for i in range(3):
                    for j in range(3):
                        gij = gam[i, j] if isinstance(gam[i, j], Jet) else Jet.constant(gam[i, j], 4, 1)
                        want = gij.diff(0) * F(-1, 2)
                        obs.append(Ob(f'ICPertFLRW(EdS): Kdown3[{i},{j}]', T0(K[i, j]), T0(want), pre,
                                      group='ICPertFLRW on EdS: K_ij == -(d_t gamma_ij)/2 (all 9 entries)'))
                        if i < j:
                            obs.append(Ob(f'ICPertFLRW(EdS): gammadown3[{i},{j}] == gammadown3[{j},{i}]', T0(gam[i, j]), T0(gam[j, i]), pre,
                                          group='ICPertFLRW on EdS: gammadown3 symmetric'))
    finally:
        for k, v in saved.items():
            setattr(eds, k, v)
    # isotropy on an ARBITRARY background: a(t), fL(t), Omega_m(t), H(t) are independent positive unknowns (so nothing that
    # happens to coincide on EdS, e.g. fL = Omega_m = 1, can hide); the perturbed FLRW metric and extrinsic curvature built
    # from Rc'(x, y, z) = Rc(z, x, y) are those built from Rc with the axes permuted the same way, all 9 entries each
    class Bg:
        def a(self, t):
            return sym('bg_a')

        def fL(self, t):
            return sym('bg_fL')

        def Omega_m(self, t):
            return sym('bg_Om')

        def Hprop(self, t):
            return sym('bg_H')
    pre_bg = [tm.lt(tm.ZERO, sym(n).t) for n in ('bg_a', 'bg_fL', 'bg_Om', 'bg_H')]
    with patched(modules=('aurel.solutions.ICPertFLRW', 'aurel.maths')):
        with use_ctx(Ctx(pre=pre_bg, fork=False, decide_timeout=30)):
            order = 3
            t = Jet.coordinate(0, sym('t'), 4, order)
            rc = Jet.fresh('Rc', 4, order)
            rc = Jet(4, order, {k: (tm.ZERO if 0 in k else v) for k, v in rc.c.items()})
            pi = {0: 0, 1: 2, 2: 3, 3: 1}              # d_x Rc' = d_y Rc, d_y Rc' = d_z Rc, d_z Rc' = d_x Rc
            rcp = Jet(4, order, {k: rc.c[tuple(sorted(pi[a] for a in k))] for k in rc.c})
            fd = JetFD(4)

            def cellj(j):
                arr = np.empty((1, 1, 1), dtype=object)
                arr[0, 0, 0] = j
                return arr
            bg = Bg()
            for fn_name, fn in (('gammadown3', icp.gammadown3), ('Kdown3', icp.Kdown3)):
                A = gr.ungrid(fn(bg, fd, t, cellj(rc)))
                B = gr.ungrid(fn(bg, fd, t, cellj(rcp)))
                for i in range(3):
                    for j in range(3):
                        pi_, pj_ = pi[i + 1] - 1, pi[j + 1] - 1
                        obs.append(Ob(f'ICPertFLRW(any background): {fn_name}[{i},{j}] of Rc(z,x,y) == {fn_name}[{pi_},{pj_}] of Rc',
                                      T0(B[i, j]), T0(A[pi_, pj_]), pre + pre_bg,
                                      group=f'ICPertFLRW on an arbitrary background: {fn_name} is isotropic (axes permuted with Rc)'))
    return obs, pre + pre_bg


def icpert_replay(name):
    """float replay: the real module on the real EdS background with a non-separable Rc, 4th-order central difference in time"""
    import re
    from aurel.finitedifference import FiniteDifference
    icp = importlib.import_module('aurel.solutions.ICPertFLRW')
    eds = importlib.import_module('aurel.solutions.EdS')
    if 'any background' in name:
        return icpert_replay_isotropy(name)
    i, j = map(int, re.search(r'\[(\d),(\d)\]', name).groups())
    param = {'xmin': 0.0, 'ymin': 0.0, 'zmin': 0.0, 'dx': 0.05, 'dy': 0.05, 'dz': 0.05, 'Nx': 16, 'Ny': 16, 'Nz': 16}
    fd = FiniteDifference(param, verbose=False, fd_order=6, boundary='periodic')
    x, y, z = fd.cartesian_coords
    L = 0.8
    Rc = 1e-2 * np.sin(2 * np.pi * (x + 2 * y) / L) * np.cos(2 * np.pi * (z - x) / L) + 5e-3 * np.sin(2 * np.pi * (y + z) / L)
    t = 1.3 * float(eds.t_today) if hasattr(eds, 't_today') else 1.3
    dt_ = 1e-4 * t
    g = lambda tt: icp.gammadown3(eds, fd, tt, Rc)          # noqa: E731
    dg = (-g(t + 2 * dt_) + 8 * g(t + dt_) - 8 * g(t - dt_) + g(t - 2 * dt_)) / (12 * dt_)
    K = icp.Kdown3(eds, fd, t, Rc)
    d = float(np.max(np.abs(K[i, j] + dg[i, j] / 2)))
    sc = float(np.max(np.abs(dg))) + 1e-300
    return dict(max_abs_difference=d, scale=sc, relative=d / sc, reproduces=d / sc > 1e-7)


def icpert_replay_isotropy(name):
    """float replay of an isotropy obligation: the real module on the real LCDM background at a late time, cubic periodic grid,
    non-separable Rc and its axis-permuted copy"""
    import re
    from aurel.finitedifference import FiniteDifference
    icp = importlib.import_module('aurel.solutions.ICPertFLRW')
    lcdm = importlib.import_module('aurel.solutions.LCDM')
    fn = icp.Kdown3 if 'Kdown3' in name else icp.gammadown3
    (i, j), (pi_, pj_) = [tuple(map(int, m)) for m in re.findall(r'\[(\d),(\d)\]', name)[:2]]
    param = {'xmin': 0.0, 'ymin': 0.0, 'zmin': 0.0, 'dx': 0.05, 'dy': 0.05, 'dz': 0.05, 'Nx': 16, 'Ny': 16, 'Nz': 16}
    fd = FiniteDifference(param, verbose=False, fd_order=6, boundary='periodic')
    x, y, z = fd.cartesian_coords
    L = 0.8
    Rc = 1e-2 * np.sin(2 * np.pi * (x + 2 * y) / L) * np.cos(2 * np.pi * (z - x) / L) + 5e-3 * np.sin(2 * np.pi * (y + z) / L)
    Rcp = np.ascontiguousarray(np.transpose(Rc, (1, 2, 0)))          # Rc'(x, y, z) = Rc(z, x, y)
    t = 3.0 * float(lcdm.t_today_EdS)
    A, B = fn(lcdm, fd, t, Rc), fn(lcdm, fd, t, Rcp)
    d = float(np.max(np.abs(B[i, j] - np.transpose(A[pi_, pj_], (1, 2, 0)))))
    sc = float(np.max(np.abs(A[pi_, pj_]))) + 1e-300
    return dict(max_abs_difference=d, scale=sc, relative=d / sc, reproduces=d / sc > 1e-9)


def generator_rewrite(modname, obs, pre):
    """LCDM / Szekeres: rewrite the obligations over generators so that exp, the cube root of sinh, sqrt(cosh^2), LCDM's Hubble
    square root and the roots of the density parameters disappear.  With E = exp(u), S = (E - 1/E)/2, C = (E + 1/E)/2,
    R = S^(1/3), sigma = sqrt(1 - Om), c2 = (Om/(1-Om))^(1/3):
        E -> gR^3 + gC,  1/E -> gC - gR^3,  R -> gR,  sqrt(C^2) -> gC,  h = sqrt(Ol + Om/(c2^3 R^6)) -> gS gC / gR^3,
        Om -> 1 - gS^2,  sigma -> gS,  c2 -> gC2        under   gR > 0, gC > 0, gC^2 = 1 + gR^6, 0 < gS < 1, gC2 > 0, gC2^3 gS^2 = 1 - gS^2.
    Every replacement is an equality between the ORIGINAL atoms that the solver proves first (lemmas below, with all atom
    axioms); the generators then stand for R, C, sigma, c2, and the hypotheses are facts the lemmas establish for them, so
    validity of a rewritten obligation implies validity of the original.  Returns (obs', pre', lemma records) or None."""
    roots = [o.impl for o in obs] + [o.oracle for o in obs] + list(pre)
    nodes = tm.reachable(roots)
    exps = [n for n in nodes if n.op == 'exp']
    if len(exps) != 1:
        return None
    E = exps[0]
    rE = tm.recip(E)
    S = tm.scale(tm.sub(E, rE), F(1, 2))
    C = tm.scale(tm.add(E, rE), F(1, 2))
    R = tm.root(S, 3)
    sqC = tm.sqrt(tm.canon(tm.mul(C, C)))
    ids = {n.id for n in nodes}

    def contains(n, target):
        return target.id in {m.id for m in tm.reachable([n])}
    sqrts = [n for n in nodes if n.op == 'sqrt']
    hs = [n for n in sqrts if n is not sqC and contains(n, R)]
    sig = [n for n in sqrts if not contains(n, E)]
    c2s = [n for n in nodes if n.op == 'root' and not contains(n, E)]
    if R.id not in ids or len(sig) != 1 or len(c2s) != 1 or len(hs) > 1:
        return None
    sigma, c2atom, Omv = sig[0], c2s[0], tm.var('Om')
    lemmas = []

    def prove(name, goal, hyps):
        r = solver.check(list(hyps) + [tm.bnot(goal)], timeout_s=60, want_model=False)
        lemmas.append(dict(name=f'{modname}: lemma {name}', verdict=r['verdict'], seconds=round(r['seconds'], 3), sha=r['sha']))
        return r['verdict'] == 'unsat'
    hy = list(pre)
    steps = [('sinh > 0', tm.lt(tm.ZERO, S)), ('R^3 = sinh', tm.eq(tm.ipow(R, 3), S)), ('R > 0', tm.lt(tm.ZERO, R)),
             ('cosh^2 = 1 + R^6', tm.eq(tm.mul(C, C), tm.add(tm.ONE, tm.ipow(R, 6)))), ('cosh > 0', tm.lt(tm.ZERO, C)),
             ('E = R^3 + cosh', tm.eq(E, tm.add(tm.ipow(R, 3), C))), ('1/E = cosh - R^3', tm.eq(rE, tm.sub(C, tm.ipow(R, 3)))),
             ('sigma > 0', tm.lt(tm.ZERO, sigma)), ('sigma < 1', tm.lt(sigma, tm.ONE)), ('sigma^2 = 1 - Om', tm.eq(tm.mul(sigma, sigma), tm.sub(tm.ONE, Omv))),
             ('c2 > 0', tm.lt(tm.ZERO, c2atom)), ('c2^3 sigma^2 = 1 - sigma^2', tm.eq(tm.mul(tm.ipow(c2atom, 3), tm.mul(sigma, sigma)),
                                                                                      tm.sub(tm.ONE, tm.mul(sigma, sigma))))]
    if sqC.id in ids:
        steps.append(('sqrt(cosh^2) = cosh', tm.eq(sqC, C)))
    for h in hs:
        steps.append(('h = sigma cosh / R^3', tm.eq(h, tm.mul(tm.mul(sigma, C), tm.ipow(tm.recip(R), 3)))))
    for name, goal in steps:
        if not prove(name, goal, hy):
            return None
        hy.append(goal)
    gR, gC, gS, gC2 = tm.var('gR'), tm.var('gC'), tm.var('gS'), tm.var('gC2')
    mp = {E.id: tm.add(tm.ipow(gR, 3), gC), rE.id: tm.sub(gC, tm.ipow(gR, 3)), R.id: gR, sqC.id: gC, sigma.id: gS, c2atom.id: gC2,
          Omv.id: tm.sub(tm.ONE, tm.mul(gS, gS))}
    for h in hs:
        mp[h.id] = tm.mul(tm.mul(gS, gC), tm.ipow(tm.recip(gR), 3))
    gen = [tm.lt(tm.ZERO, gR), tm.lt(tm.ZERO, gC), tm.eq(tm.mul(gC, gC), tm.add(tm.ONE, tm.ipow(gR, 6))), tm.lt(tm.ZERO, gS), tm.lt(gS, tm.ONE),
           tm.lt(tm.ZERO, gC2), tm.eq(tm.mul(tm.ipow(gC2, 3), tm.mul(gS, gS)), tm.sub(tm.ONE, tm.mul(gS, gS)))]
    new_pre = [p_ for p_ in tm.substitute(list(pre), {}, nodes=mp) if p_ is not tm.TRUE] + gen
    out = []
    for o in obs:
        a, b = tm.substitute([o.impl, o.oracle], {}, nodes=mp)
        no = Ob(o.name, a, b, new_pre, group=o.group, meta=dict(o.meta, original=(o.impl, o.oracle, list(o.pre))))
        out.append(no)
    return out, new_pre, lemmas


def run_module(args):
    modname, tier, seed = args
    import time
    t0 = time.time()
    try:
        if modname == 'ICPertFLRW':
            obs, pre = icpert_obligations()
            untranslated = 0
        else:
            obs, pre, untranslated = build_module(modname, tier)
    except Exception as e:  # noqa
        import traceback
        return dict(module=modname, error=traceback.format_exc()[-600:], obs=[], stats=solver.STATS.as_dict())
    t_build = time.time() - t0
    try:
        const_bad = constant_relations(modname) if modname != 'ICPertFLRW' else []
    except Exception as e:  # noqa
        const_bad = [('constant_relations raised', 0.0, repr(e)[:120])]
    lemma_recs = []
    if modname == 'Szekeres':
        rw = generator_rewrite(modname, obs, pre)
        if rw is not None:
            obs, pre, lemma_recs = rw
    # vacuity twin (the preconditions are satisfiable) and sensitivity witness (a wrong reference is refuted)
    vac = []
    r_ = solver.check(pre, timeout_s=60, want_model=False)
    vac.append(dict(name=f'{modname}: preconditions satisfiable', expect='sat', got=r_['verdict']))
    for o in obs:
        if (o.name.endswith('Einstein[1,1]') or o.name.endswith('Kdown3[1,1]')) and not any(
                o.name.endswith(sfx) for sfx in HUNT_ONLY.get(modname, ())):
            r_ = solver.check(list(pre) + [tm.ne(o.impl, tm.add(o.oracle, tm.ONE))], timeout_s=60, want_model=False)
            vac.append(dict(name=f'{o.name} against reference + 1', expect='sat', got=r_['verdict']))
    rungs = [dict(name='full', envs=[None], timeout=90 if tier == 'quick' else 600),
             dict(name='slice:t=3/2', envs=[{'t': F(3, 2)}], timeout=90 if tier == 'quick' else 600),
             dict(name='slice:two rational points (r = 13, r = 7), constants free', envs=[{'t': F(3, 2), 'y': F(3), 'z': F(4), 'x': F(12)}, {'t': F(5, 2), 'x': F(-2), 'y': F(6), 'z': F(3)}],
                  timeout=120 if tier == 'quick' else 600)]
    # prescreen needs exact evaluation: modules with irrational atoms evaluate in floats (tolerance 1e-7)
    calib = {o.name: 2 for o in obs if 'Kretschmann' in o.name}       # measured: only the rational-point slice settles it
    hunt = []
    if modname in HUNT_ONLY:
        # obligations no rung settles on the unchanged tree (measured): bug hunting only - random admissible points,
        # each candidate confirmed by a pinned solver query; a confirmed counterexample is a violation, otherwise the
        # obligation is listed as not claimed (never as discharged)
        hunt = [o for o in obs if any(o.name.endswith(sfx) for sfx in HUNT_ONLY[modname])]
        obs = [o for o in obs if o not in hunt]
        gslice = {'x': F(1, 2), 'y': F(-1, 3), 'z': F(3, 4), 'gS': F(1, 3), 'gC2': F(2), 't_today': F(3, 2), 'kappa': F(2), 'Amp': F(2), 'kwave': F(1, 2)}
        gslice2 = {'x': F(-2, 3), 'y': F(5, 4), 'z': F(1, 5), 'gS': F(1, 3), 'gC2': F(2), 't_today': F(2, 3), 'kappa': F(3), 'Amp': F(-1, 2), 'kwave': F(3, 2)}
        hr = [dict(name='full (generators)', envs=[None], timeout=30 if tier == 'quick' else 300),
              dict(name='slice: two rational points for (x, y, z) and the constants (Omega_m = 8/9); time, the hypergeometric and the trig atoms free',
                   envs=[gslice, gslice2], timeout=40 if tier == 'quick' else 300)]
        solve_ladder(hunt, hr, sampler=None, rng=random.Random(seed + 1), workers=8)
        # a random-point candidate whose pinned query the solver does not settle either is handed to the float replay of the real
        # module (the replay is the arbiter of every report); labelled as such
        from symx.harness import prescreen

        def original(o):
            if 'original' in o.meta:
                i_, r_, p_ = o.meta['original']
                return Ob(o.name, i_, r_, p_, group=o.group)
            return o
        still = [o for o in hunt if o.result['verdict'] == 'unknown']
        cands, _ = prescreen([original(o) for o in still], sampler_for(modname), random.Random(seed + 1), n_models=3)
        for i_, m_ in cands.items():
            still[i_].result = dict(verdict='sat', rung='numeric candidate (pinned query not settled); float replay decides', seconds=0.0,
                                    sha='numeric', model=dict(m_), backend='none', trivial=False)
    rewritten = any('original' in o.meta for o in obs)
    if rewritten:
        # random-point candidates are evaluated on the original terms (the generators have no rational points to sample)
        from symx.harness import prescreen, pinned_query
        origs = [Ob(o.name, *o.meta['original'][:2], o.meta['original'][2], group=o.group) for o in obs]
        cands, _ = prescreen(origs, sampler_for(modname), random.Random(seed), n_models=2)
        for i_, m_ in cands.items():
            r_ = solver.check(pinned_query(origs[i_], m_), timeout_s=30, want_model=True)
            if r_['verdict'] == 'sat':
                full = dict(m_)
                full.update({k: v for k, v in r_['model'].items() if v is not None})
                obs[i_].result = dict(verdict='sat', rung='pinned-candidate', seconds=r_['seconds'], sha=r_['sha'], model=full, backend='z3old', trivial=False)
            else:
                obs[i_].result = dict(verdict='sat', rung='numeric candidate (pinned query not settled); float replay decides', seconds=0.0,
                                      sha='numeric', model=dict(m_), backend='none', trivial=False)
        todo = [o for o in obs if o.result is None]
        solve_ladder(todo, rungs, sampler=None, rng=random.Random(seed), workers=4, calib=calib)
    else:
        solve_ladder(obs, rungs, sampler=sampler_for(modname), rng=random.Random(seed), workers=4, calib=calib)
    out = []
    unsettled = [o.name for o in hunt if o.result['verdict'] == 'unknown']
    for o in obs + [o for o in hunt if o.result['verdict'] != 'unknown']:
        r = o.result
        rec = dict(name=o.name, verdict=r['verdict'], seconds=round(r['seconds'], 3), backend=r.get('backend', 'z3old'), sha=r['sha'],
                   group=o.group, trivial=r.get('trivial', False), kind='identity', detail=r['rung'])
        if r['verdict'] == 'sat':
            try:
                oi, oo = (o.meta['original'][:2] if 'original' in o.meta else (o.impl, o.oracle))
                a, b = eval_terms([oi, oo], r['model'])
                rec['values'] = [float(a), float(b)]
            except Exception:  # noqa
                rec['values'] = None
            rec['model'] = {k: str(v) for k, v in r['model'].items() if v is not None}
        out.append(rec)
    return dict(module=modname, obs=out, build_s=round(t_build, 1), untranslated=untranslated, stats=solver.STATS.as_dict(), error=None, vacuity=vac,
                hunt_only_unsettled=unsettled, lemmas=lemma_recs, const_bad=const_bad)


def float_replay(modname, name, model):
    if modname == 'ICPertFLRW':
        return icpert_replay(name)
    return _float_replay(modname, name, model)


def _float_replay(modname, name, model):
    """Evaluate the real module with numpy floats at the model point and compare with a finite-difference / numpy
    reference (independent of symx)."""
    from aurel.core import AurelCore
    from symx.harness import grid_fd
    mod = importlib.import_module('aurel.solutions.' + modname)
    # the module's own numeric constants are used here (the symbolic claim is for every value, this is one)
    pt = [float(F(model.get(n, '1'))) for n in ('t', 'x', 'y', 'z')]
    N, h = 13, 0.01
    fd = grid_fd(N, h, 8)
    X, Y, Z = fd.x + pt[1], fd.y + pt[2], fd.z + pt[3]
    t = pt[0]
    out = {}
    with np.errstate(all='ignore'):
        gam = mod.gammadown3(t, X, Y, Z)
        if 'Kdown3' in name:
            dt_ = 1e-4 * abs(t)
            # 4th-order central difference in time
            dgam = (-mod.gammadown3(t + 2 * dt_, X, Y, Z) + 8 * mod.gammadown3(t + dt_, X, Y, Z)
                    - 8 * mod.gammadown3(t - dt_, X, Y, Z) + mod.gammadown3(t - 2 * dt_, X, Y, Z)) / (12 * dt_)
            al = mod.alpha(t, X, Y, Z) if hasattr(mod, 'alpha') else np.ones(X.shape)
            want = -dgam / (2 * al)
            got = mod.Kdown3(t, X, Y, Z)
            c = N // 2
            d = float(np.max(np.abs((got - want)[:, :, c, c, c])))
            sc = float(np.max(np.abs(want[:, :, c, c, c]))) + 1e-300
            return dict(max_abs_difference=d, scale=sc, relative=d / sc, reproduces=d / sc > 1e-7)
        if 'Einstein' in name and hasattr(mod, 'gdown4') and 'analytical' in mod.gdown4.__code__.co_varnames and hasattr(mod, 'Tdown4'):
            return sympy_einstein_replay(mod, name, pt)
        if 'Einstein' in name:
            rel = AurelCore(fd, verbose=False, Lambda=getattr(mod, 'Lambda', 0.0) if modname != 'Non_diagonal' else 0.0)
            rel.data['gammadown3'] = gam
            if hasattr(mod, 'alpha'):
                rel.data['alpha'] = mod.alpha(t, X, Y, Z)
            rel.data['Kdown3'] = mod.Kdown3(t, X, Y, Z)
            if hasattr(mod, 'Tdown4'):
                rel.data['Tdown4'] = mod.Tdown4(t, X, Y, Z)
            else:
                press = getattr(mod, 'press', lambda *a_: 0.0)
                try:
                    rel.data['rho0'] = mod.rho(t, X, Y, Z)
                    rel.data['press'] = press(t, X, Y, Z)
                except TypeError:
                    rel.data['rho0'] = mod.rho(t) * np.ones(X.shape)
                    rel.data['press'] = press(t) * np.ones(X.shape)
            rel.freeze_data()
            c = N // 2
            H = float(rel['Hamiltonian'][c, c, c])
            Mx = float(np.max(np.abs(rel['Momentumup3'][:, c, c, c])))
            sc = float(rel['Hamiltonian_Escale'][c, c, c]) + 1e-30
            return dict(Hamiltonian=H, Momentum=Mx, energy_scale=sc, reproduces=(abs(H) > 1e-6 * sc or Mx > 1e-6 * sc))
    return dict(reproduces=True, note='no float replay for this obligation; DAG evaluation only')


def sympy_einstein_replay(mod, name, pt):
    """independent reference: Einstein tensor of the module's own symbolic metric with plain sympy, evaluated at the
    point with the module's own constants, against the module's numeric Tdown4"""
    import re
    a, b = map(int, re.search(r'Einstein\[(\d),(\d)\]', name).groups())
    cs = sp.symbols('t x y z')
    g = sp.Matrix(mod.gdown4(*cs, analytical=True))
    gi = g.inv()
    n = 4
    Gm = [[[sum(gi[i, m] * (sp.diff(g[m, k], cs[j]) + sp.diff(g[m, j], cs[k]) - sp.diff(g[j, k], cs[m])) for m in range(n)) / 2
            for k in range(n)] for j in range(n)] for i in range(n)]
    sub = dict(zip(cs, [sp.Float(v, 30) for v in pt]))

    def Riem(i, j, k, l):
        return (sp.diff(Gm[i][j][l], cs[k]) - sp.diff(Gm[i][j][k], cs[l])
                + sum(Gm[i][k][e] * Gm[e][j][l] - Gm[i][l][e] * Gm[e][j][k] for e in range(n)))
    Ric = [[sum(Riem(k, i, k, j) for k in range(n)).subs(sub).evalf(25) for j in range(n)] for i in range(n)]
    gin = gi.subs(sub).evalf(25)
    gn = g.subs(sub).evalf(25)
    RS = sum(gin[i, j] * Ric[i][j] for i in range(n) for j in range(n))
    Gab = Ric[a][b] - gn[a, b] * RS / 2
    X = np.full((1, 1, 1), pt[1])
    Y = np.full((1, 1, 1), pt[2])
    Z = np.full((1, 1, 1), pt[3])
    T = mod.Tdown4(pt[0], X, Y, Z)[a, b, 0, 0, 0]
    lhs = float(mod.kappa * T)
    rhs = float(Gab)
    rel = abs(lhs - rhs) / max(abs(rhs), 1e-30)
    return dict(kappa_T=lhs, G_sympy=rhs, relative_difference=rel, reproduces=rel > 1e-9)


def stateless_layer(report):
    """A bundled spacetime is a *function* of (t, x, y, z): what a module returns must not depend on earlier calls.  The
    identities above are decided on one call per function; this concrete layer calls every public numpy function with the
    signature (t, x, y, z) twice on the real module - the second time with the SAME coordinate array objects updated in
    place and another t - and compares with the call on fresh copies (a value memoised on array identity shows here)."""
    import inspect
    import warnings
    n = 0

    def flat(v):
        if isinstance(v, dict):
            return [np.asarray(x, dtype=float) for _, x in sorted(v.items()) if not isinstance(x, str)]
        return [np.asarray(v, dtype=float)]
    for modname in MODS:
        if modname == 'ICPertFLRW':
            continue
        mod = importlib.import_module(f'aurel.solutions.{modname}')
        for fname, fn in sorted(vars(mod).items()):
            if fname.startswith('_') or not inspect.isfunction(fn) or fn.__module__ != mod.__name__:
                continue
            if list(inspect.signature(fn).parameters)[:4] != ['t', 'x', 'y', 'z']:
                continue
            rng = np.random.default_rng(11)
            x, y, z = (rng.uniform(0.6, 1.4, size=(4, 3, 2)) for _ in range(3))
            t1, t2 = 1.7, 2.3
            try:
                with warnings.catch_warnings(), np.errstate(all='ignore'), contextlib.redirect_stdout(io.StringIO()):
                    warnings.simplefilter('ignore')
                    fn(t1, x, y, z)
                    x += 0.37
                    y *= 1.1
                    z += 0.21
                    second = flat(fn(t2, x, y, z))
                    ref = flat(fn(t2, x.copy(), y.copy(), z.copy()))
            except Exception as e:  # noqa
                report.notes.append(f'stateless layer: {modname}.{fname} raised {e!r}'[:160])
                continue
            n += 1
            dev = max([float(np.nanmax(np.abs(a - b))) if a.shape == b.shape and a.size else (0.0 if a.shape == b.shape else float('inf'))
                       for a, b in zip(second, ref)] + [0.0])
            nanmis = any(a.shape == b.shape and not np.array_equal(np.isnan(a), np.isnan(b)) for a, b in zip(second, ref))
            if dev > 0 or nanmis or len(second) != len(ref):
                name = f'{modname}.{fname}: second call on the same (updated) arrays'
                report.record(name, 'sat', group='modules are functions of their arguments (concrete executions)', kind='concrete')
                report.violation(f'{modname}.{fname} depends on earlier calls',
                                 f'{modname}.{fname}(t, x, y, z) called again with the same array objects updated in place differs by {dev:.3g} '
                                 'from the call on fresh copies', report.write_replay(f'stateless_{modname}_{fname}', dict(module=modname, function=fname, dev=dev)))
    report.record(f'{n} public (t, x, y, z) functions of the 9 exact-solution modules: second call on updated arrays == call on fresh copies',
                  'holds', group='modules are functions of their arguments (concrete executions)', kind='concrete', trivial=True)


def main(report, tier, seed, workers, calibrate=False):
    import multiprocessing as mp
    stateless_layer(report)
    report.bounds = dict(modules=MODS, jet_order=2, coordinates='t > 0 and (x, y, z) free reals (Schwarzschild: outside the horizon)',
                         constants='kappa, fq, M, t_today symbolic (any positive value); Collins_Stewart gamma = 4/3 with s^2 = 4/3; LCDM: 0 < Omega_m < 1 and '
                         't_EdS > 0 free, the other constants as the module derives them; Rosquist_Jantzen: s, q, k > 0, m > 0 free (covers the shipped '
                         'gamma = 1.22 and every other choice; powers of t as monomials in the atoms t, t**s, t**q)',
                         outside=[f'{k}: {v}' for k, v in OUT_OF_REACH.items()] + ['null_ray_exp_out', 'float round-off'])
    report.assumptions += ['module constants replaced by symbols related as the module relates them (exact identities, no '
                           'tolerance mode needed)', 'sin/cos/exp/log/roots are atoms with their differential rules; '
                           'sin^2+cos^2 = 1, exp > 0, exp(u) >= 1 + u, u < 0 -> exp(u) < 1, exp(a + b) = exp(a) exp(b) on integer combinations, root^q = x; sinh/cosh through exp', 'perfect-fluid modules: u = n (comoving), T = rho n n + p h']
    report.stubs += ['aurel.solutions.<module>.np and aurel.maths.np -> symx.npproxy', 'module-level constants -> symbols']
    with FuncTrace() as ft:
        build_module('Conformally_flat', tier)
    report.functions |= ft.seen
    report.extra['source_sha1'] = source_digest(FILES)
    with mp.Pool(min(len(MODS), max(2, workers // 4))) as pool:
        results = pool.map(run_module, [(m, tier, seed) for m in MODS], chunksize=1)
    seen = set()
    for res in results:
        st = res['stats']
        solver.STATS.queries += st['queries']
        solver.STATS.seconds += st['solver_seconds']
        for k_, v_ in st.get('by_verdict', {}).items():
            solver.STATS.by_verdict[k_] = solver.STATS.by_verdict.get(k_, 0) + v_
        for k_, v_ in st.get('by_backend', {}).items():
            solver.STATS.by_backend[k_] = solver.STATS.by_backend.get(k_, 0) + v_
        if res['error']:
            report.harness_errors.append(f"{res['module']}: {res['error'][-300:]}")
            continue
        report.extra.setdefault('build_seconds', {})[res['module']] = res['build_s']
        cb = res.get('const_bad', [])
        report.record(f"{res['module']}: module-level numeric constants satisfy the relations the identities were proved under", 'holds' if not cb else 'sat',
                      group='module-level constants (concrete)', kind='concrete', trivial=True)
        if cb:
            try:
                import importlib as _il
                from fractions import Fraction as _F
                tt_ = '3/2'
                if res['module'] in ('LCDM', 'Szekeres'):          # late times: Lambda matters
                    tt_ = str(_F(float(_il.import_module('aurel.solutions.LCDM').t_today_EdS)).limit_denominator(1000))
                rp = float_replay(res['module'], f"{res['module']}: Einstein[0,0]", {'t': tt_, 'x': '1/2', 'y': '-1/3', 'z': '3/4'})
            except Exception as e:  # noqa
                rp = dict(reproduces=False, error=repr(e)[:200])
            if rp.get('reproduces'):
                report.violation(f"{res['module']}: constants", f"{res['module']}: module constants {cb} differ from the relations under which its "
                                 f"identities hold; with the module's own constants Einstein's equations fail: {rp}",
                                 report.write_replay(f"{res['module']}_constants", dict(module=res['module'], constants=cb, replay=rp)))
            else:
                report.harness_errors.append(f"{res['module']}: module constants {cb} differ from the harness relations but the float replay shows no residual: {rp}")
        for lm in res.get('lemmas', []):
            report.record(lm['name'], lm['verdict'], lm['seconds'], sha=lm['sha'], group=f"{res['module']}: lemmas justifying the rewrite over generators")
        if res.get('hunt_only_unsettled'):
            report.extra.setdefault('hunt_only_unsettled', []).extend(res['hunt_only_unsettled'])
        for v_ in res.get('vacuity', []):
            report.vacuity.append(v_)
            if v_['got'] == 'unsat':
                report.harness_errors.append(f"vacuity/sensitivity witness {v_['name']} came back unsat")
            elif v_['got'] != 'sat':
                report.notes.append(f"witness {v_['name']}: {v_['got']} (not settled)")
        if res['untranslated']:
            report.notes.append(f"{res['module']}: {res['untranslated']} symbolic metric entries not translatable")
        for o in res['obs']:
            model = o.pop('model', None)
            vals = o.pop('values', None)
            report.obs.append(o)
            if o['verdict'] == 'unknown':
                report.inconc(o['name'], 'not settled')
            elif o['verdict'] == 'sat':
                key = o['group']
                if key in seen:
                    continue
                try:
                    rp = float_replay(res['module'], o['name'], model)
                except Exception as e:  # noqa
                    rp = dict(reproduces=False, error=repr(e)[:200])
                if rp.get('reproduces'):
                    seen.add(key)
                    path = report.write_replay(o['name'], dict(module=res['module'], obligation=o['name'], model=model, values=vals, replay=rp))
                    report.violation(key, f"{o['name']}: module gives {vals[0] if vals else '?'}, reference {vals[1] if vals else '?'} at {model}; float replay {rp}", path)
                else:
                    report.harness_errors.append(f"{o['name']}: solver model does not reproduce on floats: {rp}")


def replay_payload(payload):
    rp = float_replay(payload['module'], payload['obligation'], payload['model'])
    print(rp)
    return 1 if rp.get('reproduces') else 0
