"""C07 - finite-difference operators are the stated-order stencil at every grid point.
The real FiniteDifference runs on arrays of free real samples with symbolic 1/dx; each output
sample must equal (1/dx) * sum_s w_s f[idx(i+s)] where the w_s are *unknown reals constrained by
the moment equations* of the documented stencil (so 'exactly the standard weights' and 'exact on
polynomials of degree <= p' are the same statement), for every sample value."""
import itertools
from fractions import Fraction as F

import numpy as np

from symx import term as tm, solver
from symx.sym import SymReal, sym, Ctx, use_ctx
from symx.harness import FuncTrace, source_digest, eval_terms

PID = 'C07'
FILES = ['src/aurel/finitedifference.py']
BOUNDARIES = ['no boundary', 'periodic', 'symmetric']


def min_size(order, boundary):
    m = order // 2
    if boundary == 'no boundary':
        return order + m
    if boundary == 'periodic':
        return max(m, 1)
    return m + 1


def make_fd(shape, order, boundary):
    from aurel.finitedifference import FiniteDifference
    param = {'xmin': 0.0, 'ymin': 0.0, 'zmin': 0.0, 'dx': 1.0, 'dy': 1.0, 'dz': 1.0,
             'Nx': shape[0], 'Ny': shape[1], 'Nz': shape[2]}
    fd = FiniteDifference(param, boundary=boundary, fd_order=order, verbose=False)
    fd.inverse_dx, fd.inverse_dy, fd.inverse_dz = sym('idx'), sym('idy'), sym('idz')
    return fd


def samples(shape, prefix='f'):
    a = np.empty(shape, dtype=object)
    for idx in np.ndindex(*shape):
        a[idx] = sym(prefix + '_' + '_'.join(map(str, idx)))
    return a


def stencil(i, N, order, boundary):
    """(kind, offsets, index map) documented for grid point i."""
    m = order // 2
    if boundary == 'no boundary':
        if i < m:
            return 'forward', list(range(0, order + 1)), lambda k: k
        if i >= N - m:
            return 'backward', list(range(-order, 1)), lambda k: k
        return 'centred', list(range(-m, m + 1)), lambda k: k
    if boundary == 'periodic':
        return 'centred', list(range(-m, m + 1)), lambda k: k % N
    # symmetric: mirror about the first / last point

    def mirror(k):
        if k < 0:
            return -k
        if k > N - 1:
            return 2 * (N - 1) - k
        return k
    return 'centred', list(range(-m, m + 1)), mirror


def moment_equations(wvars, offsets):
    eqs = []
    for n in range(len(offsets)):
        s = tm.ZERO
        for w, o in zip(wvars, offsets):
            s = tm.add(s, tm.scale(w, F(o) ** n if not (o == 0 and n == 0) else 1))
        eqs.append(tm.eq(s, tm.const(1 if n == 1 else 0)))
    return eqs


def exact_weights(offsets):
    """Solve the moment equations with Fractions (used only in replays)."""
    n = len(offsets)
    A = [[F(o) ** k if not (o == 0 and k == 0) else F(1) for o in offsets] + [F(1 if k == 1 else 0)]
         for k in range(n)]
    for c in range(n):
        p = next(r for r in range(c, n) if A[r][c] != 0)
        A[c], A[p] = A[p], A[c]
        A[c] = [x / A[c][c] for x in A[c]]
        for r in range(n):
            if r != c and A[r][c] != 0:
                A[r] = [x - A[r][c] * y for x, y in zip(A[r], A[c])]
    return [A[r][n] for r in range(n)]


def expected_terms(f, axis, order, boundary, idsym, wtable):
    """(terms by output index, weight constraints)."""
    N = f.shape[axis]
    out = np.empty(f.shape, dtype=object)
    cons = []
    for idx in np.ndindex(*f.shape):
        i = idx[axis]
        kind, offs, imap = stencil(i, N, order, boundary)
        key = (kind,)
        if key not in wtable:
            ws = [tm.var(f'w_{kind}_{o + order}') for o in offs]
            wtable[key] = ws
            cons.extend(moment_equations(ws, offs))
        ws = wtable[key]
        s = tm.ZERO
        for w, o in zip(ws, offs):
            j = list(idx)
            j[axis] = imap(i + o)
            s = tm.add(s, tm.mul(w, f[tuple(j)].t))
        out[idx] = tm.mul(s, idsym.t)
    return out, cons


def shape_for(axis, N):
    other = [2, 3]
    s = other[:]
    s.insert(axis, N)
    return tuple(s)


def run_case(report, order, boundary, axis, N):
    shape = shape_for(axis, N)
    name = f"order{order}/{boundary}/axis{'xyz'[axis]}/shape{shape}"
    fd = make_fd(shape, order, boundary)
    f = samples(shape)
    op = [fd.d3x, fd.d3y, fd.d3z][axis]
    idsym = [fd.inverse_dx, fd.inverse_dy, fd.inverse_dz][axis]
    supported = N >= min_size(order, boundary)
    try:
        got = op(f)
    except (IndexError, ValueError) as e:
        if supported:
            report.record(name, 'sat', group='supported size raises', kind='exception')
            report.violation(name, f"supported size raised {e!r}", report.write_replay(name, dict(case=name)))
        else:
            report.record(name, 'holds', group='below minimum size: raises', kind='exception',
                          trivial=True)
        return None
    if got.shape != f.shape:
        report.record(name, 'sat', group='output shape', kind='shape')
        report.violation(name, f"output shape {got.shape} != {f.shape}",
                         report.write_replay(name, dict(case=name)))
        return None
    wtable = {}
    want, cons = expected_terms(f, axis, order, boundary, idsym, wtable)
    diffs = []
    for idx in np.ndindex(*shape):
        diffs.append(tm.ne(got[idx].t, want[idx]))
    q = cons + [tm.bor(diffs)]
    return dict(name=name, query=q, got=got, f=f, order=order, boundary=boundary, axis=axis, N=N,
                supported=supported, shape=shape, idname=['idx', 'idy', 'idz'][axis])


def replay_case(case, model):
    """Real FiniteDifference on float samples from the model vs exact standard weights."""
    from aurel.finitedifference import FiniteDifference
    shape, order, boundary, axis = case['shape'], case['order'], case['boundary'], case['axis']
    param = {'xmin': 0.0, 'ymin': 0.0, 'zmin': 0.0, 'dx': 1.0, 'dy': 1.0, 'dz': 1.0,
             'Nx': shape[0], 'Ny': shape[1], 'Nz': shape[2]}
    fd = FiniteDifference(param, boundary=boundary, fd_order=order, verbose=False)
    idv = float(model.get(case['idname']) or 1)
    fd.inverse_dx = fd.inverse_dy = fd.inverse_dz = idv
    fv = np.zeros(shape)
    for idx in np.ndindex(*shape):
        fv[idx] = float(model.get('f_' + '_'.join(map(str, idx))) or 0)
    got = [fd.d3x, fd.d3y, fd.d3z][axis](fv)
    worst = 0.0
    where = None
    N = shape[axis]
    for idx in np.ndindex(*shape):
        kind, offs, imap = stencil(idx[axis], N, order, boundary)
        w = exact_weights(offs)
        s = 0.0
        for wi, o in zip(w, offs):
            j = list(idx)
            j[axis] = imap(idx[axis] + o)
            s += float(wi) * fv[tuple(j)]
        d = abs(got[idx] - s * idv)
        if d > worst:
            worst, where = d, idx
    scale = max(1.0, float(np.max(np.abs(fv))) * abs(idv))
    return dict(worst=worst, where=where, reproduces=worst > 1e-9 * scale)


def tensor_cases(report):
    """d3_rank{1,2,3}tensor act component by component (term identity on symbolic components)."""
    fd = make_fd((7, 6, 6), 4, 'no boundary')
    n_ok = 0
    for rank, fn in ((1, fd.d3_rank1tensor), (2, fd.d3_rank2tensor), (3, fd.d3_rank3tensor)):
        lead = (2,) * rank
        f = samples(lead + (7, 6, 6), prefix=f't{rank}')
        got = fn(f)
        jobs = []
        for comp in itertools.product(range(2), repeat=rank):
            for ax, op in enumerate((fd.d3x, fd.d3y, fd.d3z)):
                want = op(f[comp])
                diffs = [tm.ne(got[(ax,) + comp + idx].t, want[idx].t) for idx in np.ndindex(7, 6, 6)]
                jobs.append(((rank, comp, ax), [tm.bor(diffs)]))
        res = solver.check_many(jobs, timeout_s=60)
        for key, r in res.items():
            nm = f"d3_rank{key[0]}tensor[{key[2]},{key[1]}] == d3{'xyz'[key[2]]}(f[{key[1]}])"
            v = r['verdict']
            report.record(nm, v, r['seconds'], sha=r['sha'], group='tensor derivatives act per component',
                          trivial=r.get('trivial', False))
            if v == 'sat':
                report.violation(nm, "tensor derivative differs from the scalar operator on the component",
                                 report.write_replay(nm, dict(case=nm, model={k: str(x) for k, x in r['model'].items()})))
            elif v == 'unknown':
                report.inconc(nm, 'not settled')
            else:
                n_ok += 1
    # single-axis tensor variants
    for nm_, fn, op in (('d3x_rank1tensor', fd.d3x_rank1tensor, fd.d3x), ('d3y_rank1tensor', fd.d3y_rank1tensor, fd.d3y),
                        ('d3z_rank1tensor', fd.d3z_rank1tensor, fd.d3z)):
        f = samples((3, 7, 6, 6), prefix='u')
        got = fn(f)
        diffs = []
        for a in range(3):
            want = op(f[a])
            diffs += [tm.ne(got[(a,) + idx].t, want[idx].t) for idx in np.ndindex(7, 6, 6)]
        r = solver.check([tm.bor(diffs)], timeout_s=60)
        report.record(nm_, r['verdict'], r['seconds'], sha=r['sha'], group='tensor derivatives act per component',
                      trivial=r.get('trivial', False))
        if r['verdict'] == 'sat':
            report.violation(nm_, 'differs from per-component scalar operator', report.write_replay(nm_, {}))


def history_cases(report, tier, workers):
    """The operator is a function of the samples it is handed *now*: on one FiniteDifference instance
    (a) differentiate an array, overwrite the same array object in place with new samples, differentiate again;
    (b) differentiate array A, then a different array B of the same shape; (c) d3x(A) then d3y(A)/d3z(A).
    Every second result must be the documented stencil of the *current* samples (no state kept between calls)."""
    orders = (4,) if tier == 'quick' else (2, 4, 6, 8)
    jobs, cases = [], []
    for order in orders:
        for boundary in BOUNDARIES:
            N = max(min_size(order, boundary), 2) + 1
            for axis in range(3):
                shape = shape_for(axis, N)
                for hist in ('in-place update', 'other array', 'other axis first'):
                    fd = make_fd(shape, order, boundary)
                    ops = [fd.d3x, fd.d3y, fd.d3z]
                    idsym = [fd.inverse_dx, fd.inverse_dy, fd.inverse_dz][axis]
                    f = samples(shape, prefix='f')
                    try:
                        if hist == 'in-place update':
                            ops[axis](f)
                            g = samples(shape, prefix='g')
                            f[...] = g
                            got, cur = ops[axis](f), f
                        elif hist == 'other array':
                            ops[axis](f)
                            cur = samples(shape, prefix='g')
                            got = ops[axis](cur)
                        else:
                            ops[(axis + 1) % 3](f) if f.shape[(axis + 1) % 3] >= min_size(order, boundary) else None
                            got, cur = ops[axis](f), f
                    except (IndexError, ValueError) as e:
                        nm = f"history[{hist}] order{order}/{boundary}/axis{'xyz'[axis]}"
                        report.record(nm, 'sat', group='two-call histories', kind='exception')
                        report.violation(nm, f'supported size raised {e!r}', report.write_replay(nm, dict(case=nm)))
                        continue
                    want, cons = expected_terms(cur, axis, order, boundary, idsym, {})
                    diffs = [tm.ne(got[idx].t, want[idx]) for idx in np.ndindex(*shape)]
                    nm = f"history[{hist}] order{order}/{boundary}/axis{'xyz'[axis]}/shape{shape}"
                    cases.append(dict(name=nm, hist=hist, order=order, boundary=boundary, axis=axis, shape=shape))
                    jobs.append((len(cases) - 1, cons + [tm.bor(diffs)]))
    res = solver.check_many(jobs, workers=workers, timeout_s=120)
    for i, c in enumerate(cases):
        r = res[i]
        report.record(c['name'], r['verdict'], r['seconds'], sha=r['sha'], group='two-call histories on one instance',
                      trivial=r.get('trivial', False))
        if r['verdict'] == 'unknown':
            report.inconc(c['name'], 'not settled')
        elif r['verdict'] == 'sat':
            rp = replay_history(c)
            if rp['reproduces']:
                report.violation(c['name'], f"{c['name']}: second result is not the stencil of the current samples "
                                 f"(float replay: max deviation {rp['worst']:.3g})",
                                 report.write_replay(c['name'], dict(kind='history', **{k: c[k] for k in c}, replay=rp)))
            else:
                report.harness_errors.append(f"history model for {c['name']} does not reproduce: {rp}")


def replay_history(c):
    """the same two-call history on the real operator with float arrays; reference = a fresh instance"""
    from aurel.finitedifference import FiniteDifference
    shape, order, boundary, axis = tuple(c['shape']), c['order'], c['boundary'], c['axis']
    param = {'xmin': 0.0, 'ymin': 0.0, 'zmin': 0.0, 'dx': 0.5, 'dy': 0.25, 'dz': 2.0,
             'Nx': shape[0], 'Ny': shape[1], 'Nz': shape[2]}
    rng = np.random.default_rng(7)
    a, b = rng.normal(size=shape), rng.normal(size=shape)
    fd = FiniteDifference(param, boundary=boundary, fd_order=order, verbose=False)
    ops = [fd.d3x, fd.d3y, fd.d3z]
    if c['hist'] == 'in-place update':
        f = a.copy()
        ops[axis](f)
        f[...] = b
        got, cur = ops[axis](f), b
    elif c['hist'] == 'other array':
        ops[axis](a)
        got, cur = ops[axis](b), b
    else:
        try:
            ops[(axis + 1) % 3](a)
        except (IndexError, ValueError):
            pass
        got, cur = ops[axis](a), a
    fresh = FiniteDifference(param, boundary=boundary, fd_order=order, verbose=False)
    ref = [fresh.d3x, fresh.d3y, fresh.d3z][axis](cur.copy())
    worst = float(np.max(np.abs(np.asarray(got, dtype=float) - ref)))
    return dict(worst=worst, reproduces=worst > 1e-9)


def dtype_cases(report, tier):
    """The solver result is about the arithmetic on the samples; which *storage type* the real operator computes in
    is invisible on object arrays.  Concrete conformance layer: integer-valued and single-precision input arrays
    give the result of their float64 copies (int: to round-off; float32: to single precision)."""
    from aurel.finitedifference import FiniteDifference
    rng = np.random.default_rng(3)
    n_run = 0
    for order in (2, 4, 6, 8):
        for boundary in BOUNDARIES:
            N = min_size(order, boundary) + 2
            for axis in range(3):
                shape = shape_for(axis, N)
                param = {'xmin': 0.0, 'ymin': 0.0, 'zmin': 0.0, 'dx': 0.5, 'dy': 0.25, 'dz': 2.0,
                         'Nx': shape[0], 'Ny': shape[1], 'Nz': shape[2]}
                fd = FiniteDifference(param, boundary=boundary, fd_order=order, verbose=False)
                op = [fd.d3x, fd.d3y, fd.d3z][axis]
                base = rng.integers(-9, 10, size=shape)
                ref = np.asarray(op(base.astype(np.float64)), dtype=np.float64)
                scale = max(1.0, float(np.max(np.abs(ref))))
                for dt, tol in ((np.int64, 1e-12), (np.int32, 1e-12), (np.float32, 1e-5), (np.float64, 0.0)):
                    arr = base.astype(dt)
                    for layout in ('C', 'F'):
                        inp = np.asfortranarray(arr) if layout == 'F' else arr
                        keep = inp.copy()
                        nm = f"dtype {np.dtype(dt).name}/{layout} order{order}/{boundary}/axis{'xyz'[axis]}"
                        n_run += 1
                        try:
                            got = np.asarray(op(inp), dtype=np.float64)
                        except Exception as e:  # noqa
                            report.record(nm, 'sat', group='dtype conformance (concrete executions)', kind='concrete')
                            report.violation(f'dtype {np.dtype(dt).name}', f'{nm}: raised {e!r}',
                                             report.write_replay(nm, dict(kind='dtype', case=nm)))
                            continue
                        dev = float(np.max(np.abs(got - ref))) if got.shape == ref.shape else float('inf')
                        if dev > tol * scale or not np.array_equal(inp, keep):
                            report.record(nm, 'sat', group='dtype conformance (concrete executions)', kind='concrete')
                            report.violation(f'dtype {np.dtype(dt).name}',
                                             f'{nm}: result differs from that of the float64 copy by {dev:.3g}'
                                             + ('' if np.array_equal(inp, keep) else ' / input modified'),
                                             report.write_replay(nm, dict(kind='dtype', case=nm, dev=dev)))
    report.record(f'{n_run} real-operator runs on int64 / int32 / float32 / float64 arrays, C and Fortran order', 'holds',
                  group='dtype conformance (concrete executions)', kind='concrete', trivial=True)


def uniqueness(report, order):
    """The moment equations determine the weights uniquely (so 'the standard weights' is well defined)."""
    for kind, offs in (('forward', list(range(0, order + 1))), ('centred', list(range(-order // 2, order // 2 + 1))),
                       ('backward', list(range(-order, 1)))):
        w1 = [tm.var(f'w1_{k}') for k in range(len(offs))]
        w2 = [tm.var(f'w2_{k}') for k in range(len(offs))]
        q = moment_equations(w1, offs) + moment_equations(w2, offs) + [tm.bor([tm.ne(a, b) for a, b in zip(w1, w2)])]
        r = solver.check(q, timeout_s=60, logic='QF_LRA')
        nm = f"weights unique: order {order} {kind}"
        report.record(nm, r['verdict'], r['seconds'], sha=r['sha'], group='moment equations have a unique solution')
        if r['verdict'] != 'unsat':
            report.inconc(nm, f"uniqueness query returned {r['verdict']}")
        r2 = solver.check(moment_equations(w1, offs), timeout_s=60, logic='QF_LRA')
        report.vacuity.append(dict(name=f'moment equations satisfiable order {order} {kind}', expect='sat',
                                   got=r2['verdict']))
        if r2['verdict'] != 'sat':
            report.harness_errors.append(f'moment equations order {order} {kind} not satisfiable')


def main(report, tier, seed, workers, calibrate=False):
    extra = 2 if tier == 'quick' else None
    report.bounds = dict(fd_order=[2, 4, 6, 8], boundary=BOUNDARIES, axes='x, y, z with non-cubic shapes',
                         N='minimum supported size .. minimum+2 (quick) / .. 2p+6 (thorough), plus every N '
                           'below the minimum down to 1 (must raise)',
                         tensor_leading_dims='2 per index, ranks 1..3',
                         histories='two calls on one instance (in-place update of the same array object, another array, '
                                   'another axis first): order 4 (quick) / all orders (thorough)',
                         dtypes='int64, int32, float32, float64 inputs in C and Fortran order (concrete conformance layer)',
                         outside=['float round-off of the weighted sum', 'N beyond the listed range (no new code '
                                  'path: the splice has three regions whose widths depend on p only) - stated, '
                                  'not proved'])
    report.assumptions += ['floats are reals; stencil literals follow the literal policy (a literal that is the '
                           'nearest double of p/q, q <= 4096, denotes p/q)']
    report.stubs += ['FiniteDifference.inverse_dx/dy/dz -> symbolic reals; samples are free reals']
    cases = []
    with FuncTrace() as ft:
        with use_ctx(Ctx(pre=[], fork=False)):
            for order in (2, 4, 6, 8):
                uniqueness(report, order)
                for boundary in BOUNDARIES:
                    lo = min_size(order, boundary)
                    hi = lo + extra if extra is not None else 2 * order + 6
                    for axis in range(3):
                        # below the minimum: must raise (or, if it does not, still satisfy the specification)
                        for N in range(1, lo):
                            if tier == 'quick' and N not in (1, lo - 1, max(1, lo - 2)):
                                continue
                            c = run_case(report, order, boundary, axis, N)
                            if c:
                                cases.append(c)
                        for N in range(lo, hi + 1):
                            c = run_case(report, order, boundary, axis, N)
                            if c:
                                cases.append(c)
            report.functions |= ft.seen
            jobs = [(i, c['query']) for i, c in enumerate(cases)]
            res = solver.check_many(jobs, workers=workers, timeout_s=120)
            for i, c in enumerate(cases):
                r = res[i]
                grp = f"order {c['order']} / {c['boundary']}" + ('' if c['supported'] else ' (below minimum, did not raise)')
                report.record(c['name'], r['verdict'], r['seconds'], sha=r['sha'], group=grp,
                              trivial=r.get('trivial', False))
                if r['verdict'] == 'unknown':
                    report.inconc(c['name'], 'not settled')
                elif r['verdict'] == 'sat':
                    rp = replay_case(c, r['model'])
                    if rp['reproduces']:
                        what = (f"{c['name']}: real operator differs from the standard stencil by {rp['worst']:.3g} "
                                f"at {rp['where']}" + ('' if c['supported'] else ' (size below minimum accepted silently)'))
                        path = report.write_replay(c['name'], dict(case=c['name'], order=c['order'], boundary=c['boundary'],
                                                                   axis=c['axis'], shape=c['shape'], idname=c['idname'],
                                                                   model={k: str(v) for k, v in r['model'].items()}, replay=rp))
                        report.violation(c['name'], what, path)
                    else:
                        report.harness_errors.append(f"model for {c['name']} does not reproduce: {rp}")
            tensor_cases(report)
            history_cases(report, tier, workers)
    dtype_cases(report, tier)
    report.extra['source_sha1'] = source_digest(FILES)
    # sensitivity witness: a perturbed weight must be detected
    c = cases[len(cases) // 2]
    idx0 = next(iter(np.ndindex(*c['shape'])))
    bad = tm.add(c['got'][idx0].t, c['f'][idx0].t)
    wt = {}
    want, cons = expected_terms(c['f'], c['axis'], c['order'], c['boundary'], sym(c['idname']), wt)
    r = solver.check(cons + [tm.ne(bad, want[idx0])], timeout_s=60, want_model=False)
    report.vacuity.append(dict(name='perturbed output (+f) is refuted', expect='sat', got=r['verdict']))
    if r['verdict'] != 'sat':
        report.harness_errors.append('sensitivity witness failed')


def replay_payload(payload):
    from fractions import Fraction
    if payload.get('kind') == 'history':
        rp = replay_history(payload)
        print(rp)
        return 1 if rp['reproduces'] else 0
    if payload.get('kind') == 'dtype':
        print('re-run ./check C07: the dtype layer is a concrete execution of the real operator')
        return 1
    case = dict(shape=tuple(payload['shape']), order=payload['order'], boundary=payload['boundary'],
                axis=payload['axis'], idname=payload['idname'])
    model = {k: Fraction(v) for k, v in payload['model'].items()}
    rp = replay_case(case, model)
    print(rp)
    return 1 if rp['reproduces'] else 0
