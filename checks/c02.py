"""C02 - requests never modify user inputs or values already handed out.

Arrays are numpy object arrays of symbolic terms: an in-place update replaces element term t by t',
and "is it a modification?" is the SMT query  t != t'  (sat exactly on the inputs for which the
stored value really changes).  Every description key is tried, in a maximal-cache pass, after an
eviction of itself, and as the first request of a fresh instance."""
import itertools
import os

import numpy as np

from symx import term as tm, oracle, solver
from symx.sym import Ctx, use_ctx, sym, symarray, SymReal, SymComplex, Inconclusive
from symx.npproxy import patched
from symx.fd import UninterpretedFD
from symx.harness import FuncTrace, source_digest, eval_terms
from . import gr
from .c01 import elem_terms

PID = 'C02'
FILES = ['src/aurel/core.py', 'src/aurel/time.py', 'src/aurel/reading.py']
SKIP = {'Psi4_lm'}            # needs the scipy interpolator on symbolic data


def arrays_in(v, path, out):
    if isinstance(v, np.ndarray):
        out.append((path, v))
    elif isinstance(v, (list, tuple)):
        for i, x in enumerate(v):
            arrays_in(x, f"{path}<{i}>", out)
    elif isinstance(v, dict):
        for k, x in v.items():
            arrays_in(x, f"{path}<{k}>", out)


class Snapshots:
    """Element-identity snapshots of every array handed out so far (kept even after eviction)."""

    def __init__(self):
        self.snaps = []           # (label, array, list of element refs)
        self.ids = set()

    def add(self, label, value):
        found = []
        arrays_in(value, label, found)
        for path, a in found:
            if id(a) in self.ids:
                continue
            self.ids.add(id(a))
            self.snaps.append((path, a, list(a.flat) if a.dtype == object else a.copy()))

    def changed(self):
        """-> list of (label, flat index, old element, new element)"""
        out = []
        for path, a, old in self.snaps:
            if a.dtype != object:
                if not np.array_equal(a, old, equal_nan=True):
                    out.append((path, -1, None, None))
                continue
            for i, (o, n) in enumerate(zip(old, a.flat)):
                if o is not n:
                    out.append((path, i, o, n))
        return out

    def resync(self):
        new = []
        for path, a, old in self.snaps:
            new.append((path, a, list(a.flat) if a.dtype == object else a.copy()))
        self.snaps = new


def inputs_for(pattern):
    al = symarray('al', ())
    be = symarray('b', (3,))
    # metric value: committed rational SPD matrix (in-place updates do not depend on it; it keeps the
    # Gram-Schmidt branch decisions of the tetrads cheap); everything else is symbolic
    ga = np.empty((3, 3, 1, 1, 1), dtype=object)
    for i in range(3):
        for j in range(3):
            ga[i, j, 0, 0, 0] = SymReal(tm.const(gr.DESIGNED_GAMMA[0][(min(i, j), max(i, j))]))
    K = symarray('K', (3, 3), symmetric=True)
    pre = [tm.lt(tm.ZERO, al[0, 0, 0].t)]
    d = dict(alpha=al, dtalpha=symarray('dta', ()), betaup3=be, dtbetaup3=symarray('dtb', (3,)), gammadown3=ga, Kdown3=K)
    if pattern == 'T':
        d['Tdown4'] = symarray('T', (4, 4), symmetric=True)
    else:
        W = symarray('W', ())
        pre += [tm.lt(tm.ZERO, W[0, 0, 0].t), tm.lt(tm.ZERO, sym('rho0').t)]
        d.update(rho0=symarray('rho0', ()), eps=symarray('eps', ()), press=symarray('press', ()), w_lorentz=W,
                 velx=symarray('v0', ()), vely=symarray('v1', ()), velz=symarray('v2', ()))
    return d, pre


def run_config(cfg):
    """worker: one (pattern, vacuum, tetrad) configuration; returns plain data."""
    pattern, vacuum, tetrad, tier = cfg
    from aurel.core import AurelCore, descriptions
    name = f"{pattern}/vacuum={vacuum}/tetrad={tetrad}"
    res = dict(name=name, events=[], executed=0, skipped=[], queries=[], functions=[])
    with patched():
        with FuncTrace() as ft:
            inputs, pre = inputs_for(pattern)
            x, y, z = sym('x'), sym('y'), sym('z')
            pre = pre + [tm.lt(tm.ZERO, (x * x + y * y).t)]
            ctx = Ctx(pre=pre, fork=True, decide_timeout=15)
            with use_ctx(ctx):
                def mk():
                    fd = UninterpretedFD()
                    for nm, v in (('x', x), ('y', y), ('z', z)):
                        a = np.empty((1, 1, 1), dtype=object)
                        a[0, 0, 0] = v
                        setattr(fd, nm, a)
                    fd.cartesian_coords = np.array([fd.x, fd.y, fd.z])
                    rel = AurelCore(fd, verbose=False, vacuum=vacuum, tetrad=tetrad)
                    for k, v in inputs.items():
                        rel.data[k] = v
                    rel.freeze_data()
                    return rel
                keys = [k for k in descriptions if k not in SKIP and k not in inputs
                        and getattr(AurelCore, k, None) is not None and getattr(AurelCore, k).__code__.co_argcount == 1]
                rel = mk()
                snaps = Snapshots()
                for k, v in inputs.items():
                    snaps.add('input:' + k, v)

                def request(rel, k, phase):
                    try:
                        v = rel[k]
                    except Inconclusive as e:
                        res['skipped'].append((k, 'inconclusive branch'))
                        return None
                    except Exception as e:  # noqa
                        res['skipped'].append((k, repr(e)[:80]))
                        return None
                    res['executed'] += 1
                    ch = snaps.changed()
                    if ch:
                        res['events'].append(dict(phase=phase, request=k, changed=[
                            dict(array=p, index=i, old=o, new=n) for p, i, o, n in ch[:400]], n=len(ch)))
                        snaps.resync()
                    snaps.add('value:' + k, v)
                    return v
                # 1. maximal cache pass (request order = description order)
                for k in keys:
                    request(rel, k, 'maximal-cache pass')
                # 2. evict one, re-request (everything else cached)
                sel = keys if tier == 'thorough' else [k for k in keys if k.startswith(('st_', 's_', 'eweyl', 'bweyl', 'Weyl', 'T', 'g', 'Momentum', 'Ham', 'dt', 'rho', 'eps'))]
                for k in sel:
                    if k in rel.data:
                        del rel.data[k]
                        rel.last_accessed.pop(k, None)
                        request(rel, k, 'evict-and-recompute')
                # 3. mirrored order: k first on a fresh instance, then the heavy consumers
                consumers = ['st_Weyl_down4', 'st_Riemann_uddd4', 'Kretschmann', 'st_Ricci_down4', 'Einsteindown4',
                             'Weyl_Psi', 'eweyl_u_down4', 'Hamiltonian', 'Momentumup3', 'dtKtrace']
                firsts = ['st_Riemann_down4', 'st_Ricci_down4', 'gdown4', 'gup4', 's_Riemann_down3', 'Tdown4', 'gammaup3',
                          'Kup3', 'st_Riemann_uudd4', 'eweyl_n_down3']
                for k in firsts:
                    if k in inputs:
                        continue
                    rel2 = mk()
                    request(rel2, k, f'fresh:{k} first')
                    for cns in consumers:
                        if cns != k:
                            request(rel2, cns, f'fresh:{k} first, then {cns}')
                # turn element changes into solver queries: old != new satisfiable?
                for ev in res['events']:
                    for c in ev['changed']:
                        if c['index'] < 0:
                            continue
                        to, tn = elem_terms(c['old']), elem_terms(c['new'])
                        c['old'] = c['new'] = None
                        if to is None or tn is None or len(to) != len(tn):
                            c['verdict'] = 'sat'
                            c['model'] = {}
                            continue
                        q = pre + [tm.bor([tm.ne(a, b) for a, b in zip(to, tn)])]
                        r = solver.check(q, timeout_s=30)
                        c['verdict'] = r['verdict']
                        c['seconds'] = r['seconds']
                        c['sha'] = r['sha']
                        c['model'] = {k_: str(v_) for k_, v_ in r['model'].items() if v_ is not None}
                        if r['verdict'] == 'sat':
                            break            # one witness per event is enough
                    ev['changed'] = [c for c in ev['changed'] if 'verdict' in c]
        res['functions'] = sorted(ft.seen)
        res['stats'] = solver.STATS.as_dict()
        res['decisions'] = ctx.decision_queries
    return res


def float_replay(pattern, vacuum, tetrad, phase, request, model):
    """Real numpy run: take copies of inputs and of every handed-out array, replay the phase, compare."""
    from aurel.core import AurelCore, descriptions
    from symx.harness import grid_fd
    from fractions import Fraction
    inputs, pre = inputs_for(pattern)
    fd = grid_fd(7, 0.1, fd_order=2)
    m = {k: Fraction(v) for k, v in model.items()}

    def realise(a):
        out = np.zeros(a.shape[:-3] + fd.x.shape)
        for idx in np.ndindex(*a.shape[:-3]):
            out[idx] = float(eval_terms([a[idx + (0, 0, 0)].t], m)[0])
        return out
    rel = AurelCore(fd, verbose=False, vacuum=vacuum, tetrad=tetrad)
    for k, v in inputs.items():
        rel.data[k] = realise(v)
    rel.freeze_data()
    handed = {}

    def grab(label, v):
        found = []
        arrays_in(v, label, found)
        for p, a in found:
            if id(a) not in handed:
                handed[id(a)] = (p, a, a.copy())
    for k, v in rel.data.items():
        grab('input:' + k, v)
    keys = [k for k in descriptions if k not in SKIP and k not in inputs
            and getattr(AurelCore, k, None) is not None and getattr(AurelCore, k).__code__.co_argcount == 1]
    with np.errstate(all='ignore'):
        if phase.startswith('fresh:'):
            first = phase[len('fresh:'):].split(' first')[0]
            grab(first, rel[first])
            grab(request, rel[request])
        else:
            for k in keys:
                try:
                    grab(k, rel[k])
                except Exception:  # noqa
                    pass
                if phase == 'maximal-cache pass' and k == request:
                    break
            if phase == 'evict-and-recompute':
                rel.data.pop(request, None)
                rel.last_accessed.pop(request, None)
                grab(request, rel[request])
    bad = []
    for p, a, old in handed.values():
        if not np.array_equal(a, old, equal_nan=True):
            bad.append((p, float(np.nanmax(np.abs(a - old)))))
    return dict(modified=bad[:5], reproduces=bool(bad))


def over_time_args(report):
    """over_time must not modify the caller's table, lists or per-step arrays (2 symbolic cells per array so that an
    in-place sort / partition by an estimator is visible); every estimator offered is requested."""
    from aurel import time as atime
    from . import c14
    import io
    import contextlib
    from symx.sym import explore
    # percentile-type estimators may partition/sort their input; keep the fork count small: one input column
    ests = ['median', 'quartile1', 'quartile3', 'max', 'std', 'minabs', 'x1y1z1']
    problems = set()
    paths = 0

    def run(c):
        fd = c14.make_fd()
        data = {'it': [3, 1], 'gxx': [c14.cell('gxxA'), c14.cell('gxxB')]}
        for a_ in data['gxx']:
            c.pre.append(tm.lt(tm.ZERO, a_[0, 0, 0].t))
            c.pre.append(tm.lt(tm.ZERO, a_[1, 0, 0].t))
        keys_before = list(data.keys())
        lists_before = {k: (v, list(v)) for k, v in data.items()}
        elems_before = {(k, i): (a, list(a.flat)) for k in ('gxx',) for i, a in enumerate(data[k])}
        vars_ = ['gammadet']
        vars_copy = list(vars_)
        ests_ = list(ests)
        probs = []
        with contextlib.redirect_stdout(io.StringIO()):
            try:
                atime.over_time(data, fd, vars=vars_, estimates=ests_, verbose=False)
            except Inconclusive:
                raise
            except Exception as e:  # noqa
                probs.append(f'over_time raised {type(e).__name__} on symbolic cells: {e}'[:120])
        if list(data.keys()) != keys_before:
            probs.append('keys of the caller table changed')
        for k, (lst, cp) in lists_before.items():
            if data.get(k) is not lst or len(lst) != len(cp) or not all(a is b for a, b in zip(lst, cp)):
                probs.append(f'column {k} of the caller table replaced/modified')
        for (k, i), (a, cp) in elems_before.items():
            if any(x is not y for x, y in zip(a.flat, cp)):
                probs.append(f'per-step array {k}[{i}] modified in place')
        if vars_ != vars_copy or ests_ != ests:
            probs.append('vars/estimates list modified')
        return probs
    harness_trouble = None
    try:
        with patched(modules=('aurel.core', 'aurel.maths', 'aurel.finitedifference')):
            for c, probs in explore(run, pre=[], backend='inproc', decide_timeout=5, max_paths=3000):
                paths += 1
                problems |= set(p for p in probs if 'raised' not in p)
                tr = [p for p in probs if 'raised' in p]
                if tr:
                    harness_trouble = tr[0]
    except Inconclusive as e:
        report.inconc('over_time arguments', str(e))
    report.extra['over_time_paths'] = paths
    if harness_trouble and not problems:
        report.notes.append('over_time with every estimator on symbolic cells: ' + harness_trouble)
    report.record('over_time leaves data / vars / estimates and the per-step arrays untouched (all estimators requested)',
                  'unsat' if not problems else 'sat', backend='z3py-inproc', sha=f'{paths}p', group='over_time arguments (2 symbolic cells per array, 2 steps)',
                  kind='structural')
    if problems:
        # float replay with every estimator
        from aurel.finitedifference import FiniteDifference
        param = {'xmin': 0.0, 'ymin': 0.0, 'zmin': 0.0, 'dx': 1.0, 'dy': 1.0, 'dz': 1.0, 'Nx': 6, 'Ny': 6, 'Nz': 6}
        fdr = FiniteDifference(param, verbose=False)
        rng = np.random.default_rng(1)
        data = {'it': [3, 1], 'gxx': [rng.uniform(1, 2, (6, 6, 6)), rng.uniform(1, 2, (6, 6, 6))]}
        cp = [a.copy() for a in data['gxx']]
        with contextlib.redirect_stdout(io.StringIO()):
            atime.over_time(data, fdr, vars=['gammadet'], estimates=ests, verbose=False)
        changed = any(not np.array_equal(a, b) for a, b in zip(data['gxx'], cp))
        for p in sorted(problems):
            if changed or 'array' not in p:
                report.violation('over_time:' + p.split('[')[0], p + (' (float replay: caller arrays differ after over_time)' if changed else ''),
                                 report.write_replay('over_time_' + p[:20], dict(problem=p, float_replay_changed=changed)))
            else:
                report.harness_errors.append(f'over_time: symbolic run says "{p}", float replay sees no change')


def save_read_args(report):
    """save_data / read_data leave their argument lists and dicts untouched - decided by CrossHair on the real
    functions over an in-memory file system (shared with C13)."""
    try:
        from . import c13
    except ImportError:
        report.notes.append('save/read argument contracts are part of the C13 harness (not available)')
        return
    c13.argument_contracts(report)
    # read_data on Einstein Toolkit directories (cache block, tensor names, both layouts): the caller's vars / it lists
    # (shared with C12: two histories per layout, symbolic iterations, every path)
    from . import c12
    cfgs = c12.history_configs('quick')
    pick = []
    for lay in ('grouped', 'ungrouped'):
        pick += [i for i, (layout, calls) in enumerate(cfgs) if layout == lay and len(calls) == 2 and any('gammadown3' in v for v, *_ in calls)][:2]
    for i in pick:
        r = c12.run_history((i, 'quick'))
        mine = [b for b in r['bad'] if any("caller's" in p_ for p_ in b['problems'])]
        verdict = 'unknown' if r['inconclusive'] else ('sat' if mine else 'unsat')
        report.record('read_data leaves vars / it untouched: ' + r['name'], verdict, r['seconds'], backend='z3py-inproc', sha=f"{r['paths']}p{r['queries']}q:{i}",
                      group='read_data (Einstein Toolkit, cached) leaves its argument lists untouched (symbolic iterations)')
        solver.STATS.queries += r['queries']
        solver.STATS.seconds += r.get('solver_seconds', 0.0)
        if r['inconclusive']:
            report.inconc(r['name'], r['inconclusive'])
        for b in mine[:1]:
            rp = c12.replay_concrete('quick', i, b['model'])
            hit = [p_ for p_ in rp['problems'] if "caller's" in p_]
            if hit:
                report.violation("read_data:caller's lists", f"{r['name']}: {hit[0]}", report.write_replay('read_data_args', dict(history=r['name'], idx=i, model=b['model'], replay=rp)))
            else:
                report.harness_errors.append(f"{r['name']}: symbolic path reports a modified argument list but the h5py replay does not: {rp}")


def interpolate_args(report):
    """numerical.interpolate (public, and what Psi4_lm hands views of the cached Psi4 to) leaves the sampled array untouched - for
    finite samples and for samples containing NaN / inf (concrete executions on read-only arrays; a write raises)"""
    from aurel import numerical
    g = (np.linspace(0, 1, 4), np.linspace(0, 1, 4), np.linspace(0, 1, 4))
    pts = (np.array([0.3, 0.6]), np.array([0.2, 0.9]), np.array([0.5, 0.1]))
    bad = []
    for kind, poke in (('finite', None), ('NaN at a node', np.nan), ('inf at a node', np.inf)):
        val = np.arange(64, dtype=float).reshape(4, 4, 4)
        if poke is not None:
            val[1, 2, 3] = poke
        snap = val.copy()
        val.setflags(write=False)
        for method in ('linear', 'nearest'):
            try:
                with np.errstate(all='ignore'):
                    numerical.interpolate(val, g, pts, method=method)
            except ValueError as e:
                if 'read-only' in str(e):
                    bad.append(f'{kind}, method={method}: interpolate writes into the array it samples ({e})')
            except Exception:  # noqa  (NaN handling of scipy is not the subject)
                pass
        if not np.array_equal(val, snap, equal_nan=True):
            bad.append(f'{kind}: sampled array changed')
    report.record('numerical.interpolate leaves the sampled array untouched (finite, NaN, inf samples)', 'holds' if not bad else 'sat',
                  group='interpolate arguments (concrete executions)', kind='concrete', trivial=True)
    if bad:
        report.violation('interpolate:argument', bad[0], report.write_replay('interpolate_args', dict(problems=bad)))


def main(report, tier, seed, workers, calibrate=False):
    import multiprocessing as mp
    report.bounds = dict(grid='1x1x1 pointwise (element identity + SMT on changed elements)',
                         histories=['maximal-cache pass over every description key', 'evict one key and recompute',
                                    'k first on a fresh instance then each heavy consumer'],
                         configs='matter as Tdown4 / as fluid variables x vacuum flag x both tetrads',
                         outside=['user writes into rel.data between requests', 'user-supplied custom functions',
                                  'Psi4_lm (interpolator)'])
    report.assumptions += ['an in-place update of a float array corresponds to an element replacement in the object array '
                           '(numpy semantics of +=, -=, slice assignment)']
    report.stubs += ['aurel.*.np -> symx.npproxy', 'derivatives uninterpreted', 'fd.x, fd.y, fd.z -> free coordinates off the axis']
    cfgs = [('T', False, 'quasi-Kinnersley', tier), ('fluid', False, 'quasi-Kinnersley', tier)]
    if tier == 'thorough':
        cfgs += [('T', True, 'quasi-Kinnersley', tier), ('fluid', False, 'fluid', tier), ('T', False, 'fluid', tier)]
    else:
        cfgs += [('T', True, 'quasi-Kinnersley', tier)]
    with mp.Pool(min(len(cfgs), workers)) as pool:
        results = pool.map(run_config, cfgs, chunksize=1)
    report.extra['source_sha1'] = source_digest(FILES)
    seen = set()
    for cfg, res in zip(cfgs, results):
        report.functions |= set(res['functions'])
        st = res['stats']
        solver.STATS.queries += st['queries']
        solver.STATS.seconds += st['solver_seconds']
        report.extra.setdefault('requests_executed', {})[res['name']] = res['executed']
        report.extra.setdefault('requests_skipped', {})[res['name']] = res['skipped'][:20]
        report.record(f"{res['name']}: no handed-out array element replaced", 'unsat' if not res['events'] else 'sat',
                      group='element identity of inputs and handed-out arrays', kind='structural',
                      sha=f"{res['name']}:{res['executed']}", trivial=False)
        report.distinct_extra = getattr(report, 'distinct_extra', 0) + res['executed']
        for ev in res['events']:
            sat = [c for c in ev['changed'] if c.get('verdict') == 'sat']
            unk = [c for c in ev['changed'] if c.get('verdict') == 'unknown']
            for c in ev['changed']:
                report.record(f"{res['name']}: {ev['request']} changes {c['array']}[{c['index']}] semantically?",
                              c['verdict'], c.get('seconds', 0.0), sha=c.get('sha', ''),
                              group='is the in-place change a modification (old != new satisfiable)')
            if sat:
                c = sat[0]
                key = f"{ev['request']} modifies {c['array'].split('<')[0]}"
                if key in seen:
                    continue
                try:
                    rp = float_replay(cfg[0], cfg[1], cfg[2], ev['phase'], ev['request'], c['model'])
                except Exception as e:  # noqa
                    report.harness_errors.append(f"replay for {key} raised {e!r}")
                    continue
                if rp['reproduces']:
                    seen.add(key)
                    path = report.write_replay(key, dict(pattern=cfg[0], vacuum=cfg[1], tetrad=cfg[2], phase=ev['phase'],
                                                         request=ev['request'], model=c['model'], replay=rp))
                    report.violation(key, f"{res['name']}: requesting {ev['request']} ({ev['phase']}) modifies "
                                     f"{ev['n']} elements of {c['array']} in place; float replay: {rp['modified'][:2]}", path)
                else:
                    report.harness_errors.append(f"{key}: solver says modified, float replay shows no change")
            elif unk:
                report.inconc(f"{res['name']}:{ev['request']}", 'semantic change undecided')
    report.rule = ('one evaluation = one solver query (branch decisions and old != new queries); distinct_nontrivial = number of '
                   'requests executed in distinct (configuration, phase, cache state) situations, each followed by an element-identity '
                   'comparison of every array handed out so far, plus distinct solver scripts')
    over_time_args(report)
    save_read_args(report)
    interpolate_args(report)


def replay_payload(payload):
    rp = float_replay(payload['pattern'], payload['vacuum'], payload['tetrad'], payload['phase'], payload['request'],
                      payload['model'])
    print(rp)
    return 1 if rp['reproduces'] else 0
