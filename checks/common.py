"""Shared post-processing of obligations for all checks."""
import json
import os
import random
import time
from fractions import Fraction

import numpy as np

from symx import term as tm, solver
from symx.harness import (Ob, solve_ladder, replay_jet, eval_terms, Report, VERIF,
                          EXIT_HARNESS)

CALIB_DIR = os.path.join(VERIF, 'calib')


def load_calib(pid):
    try:
        with open(os.path.join(CALIB_DIR, f'{pid}.json')) as f:
            return json.load(f)
    except OSError:
        return {}


def save_calib(pid, obs, rungs):
    os.makedirs(CALIB_DIR, exist_ok=True)
    names = [r['name'] for r in rungs]
    cal = {}
    for ob in obs:
        r = ob.result
        if r and r['verdict'] == 'unsat' and r['rung'] in names and names.index(r['rung']) > 0:
            cal[ob.name] = names.index(r['rung'])
    with open(os.path.join(CALIB_DIR, f'{pid}.json'), 'w') as f:
        json.dump(cal, f, indent=0, sort_keys=True)


def model_json(model):
    return {k: str(v) for k, v in model.items() if v is not None}


def model_from_json(d):
    return {k: Fraction(v) for k, v in d.items()}


def log(msg):
    print(msg, flush=True)


def process_jet(report, run, obs, rungs, sampler=None, workers=None, calib=None, seed=0,
                validate=2, verbose=False, group_note=None):
    """Discharge obligations through the ladder; replay every sat on the real float code."""
    rng = random.Random(seed)
    t0 = time.time()
    solve_ladder(obs, rungs, sampler=sampler, rng=rng, workers=workers, calib=calib,
                 log=log if verbose else None)
    for ob in obs:
        r = ob.result
        report.obs.append(dict(name=ob.name, verdict=r['verdict'], seconds=round(r['seconds'], 3),
                               backend=r.get('backend', 'z3old'), sha=r['sha'], group=ob.group,
                               trivial=r.get('trivial', False), kind='identity', detail=r['rung']))
        if r['verdict'] == 'unknown':
            report.inconc(ob.name, 'no rung of the ladder settled the query')
        elif r['verdict'] == 'sat':
            handle_sat(report, run, ob, obs)
    # translator validation: DAG value at a random admissible point == float run of the real code
    if sampler is not None and validate:
        good = [ob for ob in obs if ob.result['verdict'] == 'unsat' and ob.get is not None
                and not ob.result.get('trivial')]
        rng2 = random.Random(seed + 1)
        rng2.shuffle(good)
        for ob in good[:validate]:
            m = sampler(rng2)
            try:
                rp = replay_jet(run, ob, m)
            except Exception as e:  # noqa
                report.validation['translator_failures'] += 1
                report.notes.append(f"translator validation raised for {ob.name}: {e!r}")
                continue
            report.validation['translator_checks'] += 1
            if not rp['dag_matches_code']:
                report.validation['translator_failures'] += 1
                report.harness_errors.append(
                    f"translator validation: DAG value {rp['impl_dag']} != float code "
                    f"{rp['code_values']} for {ob.name}")
    return obs


def handle_sat(report, run, ob, obs=None):
    r = ob.result
    model = r['model']
    key = ob.meta.get('key', ob.name)
    run = ob.meta.get('run', run)           # obligations built on another input pattern carry their own float run
    payload = dict(property=report.pid, obligation=ob.name, key=key, rung=r['rung'],
                   model=model_json(model), kind='jet')
    if ob.get is None or run is None:
        # pointwise / cut-point obligation without a float replay: evaluate both DAGs exactly
        a, b = eval_terms([ob.impl, ob.oracle], model)
        payload.update(impl=str(a), oracle=str(b))
        ok = (a != b)
        rp = dict(reproduces=ok)
    else:
        try:
            rp = replay_jet(run, ob, model)
            if not rp['reproduces'] and not rp['dag_matches_code'] and obs:
                rp2 = replay_jet(run, ob, model, history=obs)
                if rp2['reproduces']:
                    rp = dict(rp2, history='read after every obligation of the block had been requested on one instance')
                    payload.update(history=True)
        except Exception as e:  # noqa
            report.harness_errors.append(f"replay of {ob.name} raised {e!r}")
            return
        payload.update(replay=rp)
    if rp['reproduces']:
        path = report.write_replay(ob.name, payload)
        what = (f"{ob.name}: code={rp.get('code_values', payload.get('impl'))} "
                f"oracle={rp.get('oracle', payload.get('oracle'))} (rung {r['rung']})")
        report.violation(key, what, path)
    else:
        report.harness_errors.append(
            f"solver model for {ob.name} does not reproduce on the real code: {rp}")


def vacuity(report, pre, name='pre'):
    r = solver.check(pre, timeout_s=30, want_model=False)
    report.vacuity.append(dict(name=name, expect='sat', got=r['verdict']))
    if r['verdict'] != 'sat':
        report.harness_errors.append(f"vacuity twin {name}: preconditions are {r['verdict']}")


def witness_sat(report, ob, name):
    """A deliberately wrong oracle (oracle + 1) must be refuted: sensitivity witness."""
    q = ob.pre + [tm.ne(ob.impl, tm.add(ob.oracle, tm.ONE))]
    # the wrong identity fails everywhere, so asking for *validity* of it must give sat of negation
    r = solver.check(q, timeout_s=60, want_model=False)
    report.vacuity.append(dict(name=name, expect='sat', got=r['verdict']))
    if r['verdict'] == 'unsat':
        report.harness_errors.append(f"sensitivity witness {name} came back unsat")


def replay_blocks(build, payload):
    """Generic replay for jet checks: rebuild the harness from /repo's current tree, find the
    obligation by name and re-run the real float code at the stored model."""
    from symx.npproxy import patched
    model = model_from_json(payload['model'])
    blocks = build('thorough') if payload.get('tier') == 'thorough' else build('quick')
    for blk in blocks:
        for ob in blk['obs']:
            if ob.name == payload['obligation']:
                if ob.get is None or blk['run'] is None:
                    a, b = eval_terms([ob.impl, ob.oracle], model)
                    print(f"impl={a} oracle={b}")
                    return 1 if a != b else 0
                rp = replay_jet(blk['run'], ob, model, history=blk['obs'] if payload.get('history') else None)
                print(json.dumps(rp, indent=1, default=str))
                return 1 if rp['reproduces'] else 0
    print("obligation not found in the current harness")
    return 3
