"""Textbook differential geometry on Jet-valued metrics, written from the definitions and
independent of aurel.  Arrays here are plain (n,n,...) object arrays of Jets (no grid dims).
Convention: R^a_{bcd} = d_c G^a_{bd} - d_d G^a_{bc} + G^a_{ce} G^e_{bd} - G^a_{de} G^e_{bc},
R_{bd} = R^a_{bad}  (MTW / Wald sign conventions, the ones aurel documents).
"""
import itertools

import numpy as np

from .jet import Jet, jetarray


def arr(shape):
    return np.empty(shape, dtype=object)


def perm_sign(p):
    s = 1
    p = list(p)
    for i in range(len(p)):
        while p[i] != i:
            j = p[i]
            p[i], p[j] = p[j], p[i]
            s = -s
    return s


def det(M):
    """Leibniz expansion."""
    n = M.shape[0]
    tot = 0
    for p in itertools.permutations(range(n)):
        term = perm_sign(p)
        for i in range(n):
            term = term * M[i, p[i]]
        tot = tot + term
    return tot


def minor(M, i, j):
    n = M.shape[0]
    rows = [r for r in range(n) if r != i]
    cols = [c for c in range(n) if c != j]
    out = arr((n - 1, n - 1))
    for a, r in enumerate(rows):
        for b, c in enumerate(cols):
            out[a, b] = M[r, c]
    return out


def inverse(M):
    """adjugate / determinant"""
    n = M.shape[0]
    d = det(M)
    rd = 1 / d
    out = arr((n, n))
    for i in range(n):
        for j in range(n):
            out[i, j] = ((-1) ** (i + j)) * det(minor(M, j, i)) * rd
    return out


def dJ(x, axis):
    return x.diff(axis) if isinstance(x, Jet) else 0.0


def christoffel(g, ginv=None):
    n = g.shape[0]
    if ginv is None:
        ginv = inverse(g)
    dg = arr((n, n, n))          # dg[c,a,b] = d_c g_ab
    for c in range(n):
        for a in range(n):
            for b in range(n):
                dg[c, a, b] = dJ(g[a, b], c)
    G = arr((n, n, n))
    for a in range(n):
        for b in range(n):
            for c in range(b, n):
                s = 0
                for d in range(n):
                    s = s + ginv[a, d] * (dg[b, d, c] + dg[c, d, b] - dg[d, b, c])
                G[a, b, c] = s * 0.5
                G[a, c, b] = G[a, b, c]
    return G


def riemann_uddd(G):
    n = G.shape[0]
    R = arr((n, n, n, n))
    for a in range(n):
        for b in range(n):
            for c in range(n):
                for d in range(n):
                    if c == d:
                        R[a, b, c, d] = 0.0
                        continue
                    if c > d:
                        R[a, b, c, d] = -R[a, b, d, c]
                        continue
                    s = dJ(G[a, b, d], c) - dJ(G[a, b, c], d)
                    for e in range(n):
                        s = s + G[a, c, e] * G[e, b, d] - G[a, d, e] * G[e, b, c]
                    R[a, b, c, d] = s
    return R


def lower_first(R, g):
    return np.einsum('ia,abcd->ibcd', g, R)


def ricci(Ruddd):
    return np.einsum('abad->bd', Ruddd)


def trace(ginv, X):
    return np.einsum('ab,ab->', ginv, X)


def truncate(a, order):
    out = arr(a.shape)
    for idx in np.ndindex(*a.shape):
        e = a[idx]
        out[idx] = e.trunc(order) if isinstance(e, Jet) else e
    return out


class Spacetime:
    """Everything derived from 4D jets of lapse, shift (up) and spatial metric (down).

    alpha: Jet, beta: (3,) jets, gamma: (3,3) symmetric jets; all dim-4 (t,x,y,z), order n.
    """

    def __init__(self, alpha, beta, gamma):
        self.alpha, self.beta, self.gamma = alpha, beta, gamma
        self.gammainv = inverse(gamma)
        self.betad = np.einsum('i,ij->j', beta, gamma)
        g = arr((4, 4))
        g[0, 0] = -alpha * alpha + np.einsum('i,i->', beta, self.betad)
        for i in range(3):
            g[0, i + 1] = self.betad[i]
            g[i + 1, 0] = self.betad[i]
            for j in range(3):
                g[i + 1, j + 1] = gamma[i, j]
        self.g = g
        self._cache = {}

    def _get(self, k, f):
        if k not in self._cache:
            self._cache[k] = f()
        return self._cache[k]

    @property
    def ginv(self):
        return self._get('ginv', lambda: inverse(self.g))

    @property
    def gdet(self):
        return self._get('gdet', lambda: det(self.g))

    @property
    def Gamma(self):
        return self._get('Gamma', lambda: christoffel(self.g, self.ginv))

    @property
    def Riem_uddd(self):
        return self._get('Ruddd', lambda: riemann_uddd(self.Gamma))

    @property
    def Riem_down(self):
        return self._get('Rdown', lambda: lower_first(self.Riem_uddd, truncate(self.g, 0)))

    @property
    def Ricci(self):
        return self._get('Ricci', lambda: ricci(self.Riem_uddd))

    @property
    def RicciS(self):
        return self._get('RicciS', lambda: trace(truncate(self.ginv, 0), self.Ricci))

    @property
    def Einstein(self):
        return self._get('G', lambda: self.Ricci - 0.5 * self.RicciS * truncate(self.g, 0))

    @property
    def Kretschmann(self):
        def f():
            gi = truncate(self.ginv, 0)
            Rd = self.Riem_down
            Rup = np.einsum('abcd,ae,bf,cg,dh->efgh', Rd, gi, gi, gi, gi)
            return np.einsum('abcd,abcd->', Rd, Rup)
        return self._get('Kr', f)

    @property
    def Weyl_down(self):
        def f():
            g = truncate(self.g, 0)
            R = self.Riem_down
            Rc = self.Ricci
            Rs = self.RicciS
            C = arr((4, 4, 4, 4))
            for a, b, c, d in itertools.product(range(4), repeat=4):
                C[a, b, c, d] = (R[a, b, c, d]
                                 - 0.5 * (g[a, c] * Rc[d, b] - g[a, d] * Rc[c, b]
                                          - g[b, c] * Rc[d, a] + g[b, d] * Rc[c, a])
                                 + Rs * (g[a, c] * g[d, b] - g[a, d] * g[c, b]) / 6)
            return C
        return self._get('Weyl', f)

    # 3+1 inputs for the code -------------------------------------------------
    @property
    def Kdown(self):
        """K_ij = (L_beta gamma_ij - d_t gamma_ij) / (2 alpha)   (order n-1)."""
        def f():
            K = arr((3, 3))
            for i in range(3):
                for j in range(3):
                    lie = 0
                    for k in range(3):
                        lie = (lie + self.beta[k] * self.gamma[i, j].diff(k + 1)
                               + self.gamma[k, j] * self.beta[k].diff(i + 1)
                               + self.gamma[i, k] * self.beta[k].diff(j + 1))
                    K[i, j] = (lie - self.gamma[i, j].diff(0)) / (2 * self.alpha)
            return K
        return self._get('K', f)

    @property
    def normal_up(self):
        a = truncate(np.array([self.alpha], dtype=object), 0)[0]
        b = truncate(self.beta, 0)
        return np.array([1 / a, -b[0] / a, -b[1] / a, -b[2] / a], dtype=object)


def fresh_spacetime(order=2, prefix=''):
    alpha = Jet.fresh(prefix + 'al', 4, order)
    beta = np.array([Jet.fresh(prefix + f'b{i}', 4, order) for i in range(3)], dtype=object)
    gam = arr((3, 3))
    for i in range(3):
        for j in range(i, 3):
            gam[i, j] = Jet.fresh(prefix + f'g{i}{j}', 4, order)
            gam[j, i] = gam[i, j]
    return Spacetime(alpha, beta, gam)


def spd_preconditions(gam_value_terms):
    """leading principal minors > 0 of a 3x3 symmetric matrix of terms."""
    from . import term as tm
    g = gam_value_terms
    m1 = g[0][0]
    m2 = tm.sub(tm.mul(g[0][0], g[1][1]), tm.mul(g[0][1], g[0][1]))
    xx, xy, xz, yy, yz, zz = g[0][0], g[0][1], g[0][2], g[1][1], g[1][2], g[2][2]
    m3 = tm.addn([tm.mul(xx, tm.sub(tm.mul(yy, zz), tm.mul(yz, yz))),
                  tm.neg(tm.mul(xy, tm.sub(tm.mul(xy, zz), tm.mul(yz, xz)))),
                  tm.mul(xz, tm.sub(tm.mul(xy, yz), tm.mul(yy, xz)))])
    return [tm.lt(tm.ZERO, m1), tm.lt(tm.ZERO, m2), tm.lt(tm.ZERO, m3)]
