"""Truncated multivariate Taylor jets: every partial derivative up to `order` at one point.

A jet of order n with *free* coefficients stands for every smooth field (any finite set of
derivative values at a point is realised by some smooth function), so an identity proved over
free jets holds for all smooth inputs.  Coefficients are keyed by the sorted tuple of
differentiation axes: () value, (1,) d/dx1, (1,3) d2/dx1dx3 ...
"""
import itertools
import math
import numbers
from fractions import Fraction

import numpy as np

from . import term as tm
from .sym import SymReal, SymBool, SymComplex, _t


def _keys(dim, order):
    out = []
    for n in range(order + 1):
        out.extend(itertools.combinations_with_replacement(range(dim), n))
    return out


_KEYS = {}


def keys(dim, order):
    k = (dim, order)
    if k not in _KEYS:
        _KEYS[k] = _keys(dim, order)
    return _KEYS[k]


_SUBSETS = {}


def _splits(I):
    """All (I_S, I_Sc) over subsets S of positions of I (with multiplicity)."""
    if I not in _SUBSETS:
        n = len(I)
        out = []
        for mask in range(1 << n):
            a = tuple(I[p] for p in range(n) if mask >> p & 1)
            b = tuple(I[p] for p in range(n) if not mask >> p & 1)
            out.append((a, b))
        _SUBSETS[I] = out
    return _SUBSETS[I]


def _set_partitions(items):
    if not items:
        yield []
        return
    first, rest = items[0], items[1:]
    for part in _set_partitions(rest):
        for i in range(len(part)):
            yield part[:i] + [[first] + part[i]] + part[i + 1:]
        yield [[first]] + part


_PARTS = {}


def _partitions(I):
    """Set partitions of the positions of I, as lists of sorted index tuples."""
    if I not in _PARTS:
        out = []
        for part in _set_partitions(list(range(len(I)))):
            out.append([tuple(sorted(I[p] for p in block)) for block in part])
        _PARTS[I] = out
    return _PARTS[I]


class OrderExhausted(Exception):
    pass


class Jet:
    __slots__ = ('dim', 'order', 'c')

    def __init__(self, dim, order, coeffs):
        self.dim = dim
        self.order = order
        self.c = coeffs            # {key: term}

    # construction -----------------------------------------------------------
    @staticmethod
    def fresh(name, dim, order):
        c = {}
        for k in keys(dim, order):
            nm = name if not k else name + "_d" + ''.join(map(str, k))
            c[k] = tm.var(nm)
        return Jet(dim, order, c)

    @staticmethod
    def constant(x, dim, order):
        t = _t(x)
        if t is None:
            raise TypeError(type(x))
        c = {k: tm.ZERO for k in keys(dim, order)}
        c[()] = t
        return Jet(dim, order, c)

    @staticmethod
    def coordinate(axis, value, dim, order):
        """Jet of the coordinate function x_axis at the point where it takes `value`."""
        j = Jet.constant(value, dim, order)
        if order >= 1:
            j.c[(axis,)] = tm.ONE
        return j

    def _lift(self, o):
        if isinstance(o, Jet):
            if o.dim != self.dim:
                raise ValueError("jet dimension mismatch")
            return o
        t = _t(o)
        if t is None:
            return None
        return Jet.constant(o, self.dim, self.order)

    def trunc(self, order):
        if order == self.order:
            return self
        return Jet(self.dim, order, {k: self.c[k] for k in keys(self.dim, order)})

    @property
    def value(self):
        return SymReal(self.c[()])

    def coef(self, *axes):
        return SymReal(self.c[tuple(sorted(axes))])

    # calculus ---------------------------------------------------------------
    def diff(self, axis):
        if self.order == 0:
            raise OrderExhausted("derivative requested beyond the jet order")
        n = self.order - 1
        return Jet(self.dim, n, {k: self.c[tuple(sorted(k + (axis,)))]
                                 for k in keys(self.dim, n)})

    # arithmetic -------------------------------------------------------------
    def __add__(self, o):
        o = self._lift(o)
        if o is None:
            return NotImplemented
        n = min(self.order, o.order)
        return Jet(self.dim, n, {k: tm.add(self.c[k], o.c[k]) for k in keys(self.dim, n)})

    __radd__ = __add__

    def __neg__(self):
        return Jet(self.dim, self.order, {k: tm.neg(v) for k, v in self.c.items()})

    def __pos__(self):
        return self

    def __sub__(self, o):
        o = self._lift(o)
        if o is None:
            return NotImplemented
        n = min(self.order, o.order)
        return Jet(self.dim, n, {k: tm.sub(self.c[k], o.c[k]) for k in keys(self.dim, n)})

    def __rsub__(self, o):
        o = self._lift(o)
        if o is None:
            return NotImplemented
        return o - self

    def __mul__(self, o):
        if isinstance(o, (complex, np.complexfloating)):
            return SymComplex(self * o.real, self * o.imag)
        t = _t(o)
        if t is not None:                       # scalar: cheap path
            if t.op == 'c':
                return Jet(self.dim, self.order,
                           {k: tm.scale(v, t.val) for k, v in self.c.items()})
            return Jet(self.dim, self.order, {k: tm.mul(v, t) for k, v in self.c.items()})
        if not isinstance(o, Jet):
            return NotImplemented
        n = min(self.order, o.order)
        c = {}
        for k in keys(self.dim, n):
            c[k] = tm.addn([tm.mul(self.c[a], o.c[b]) for a, b in _splits(k)])
        return Jet(self.dim, n, c)

    __rmul__ = __mul__

    def compose(self, derivs):
        """phi(self) given derivs[r] = phi^(r)(value) as terms, r = 0..order (Faa di Bruno)."""
        c = {}
        for k in keys(self.dim, self.order):
            if not k:
                c[k] = derivs[0]
                continue
            terms = []
            for part in _partitions(k):
                p = derivs[len(part)]
                for block in part:
                    p = tm.mul(p, self.c[block])
                terms.append(p)
            c[k] = tm.addn(terms)
        return Jet(self.dim, self.order, c)

    def reciprocal(self):
        f0 = self.c[()]
        r = tm.recip(f0)
        derivs = [tm.scale(tm.ipow(r, n + 1), (-1) ** n * math.factorial(n))
                  for n in range(self.order + 1)]
        return self.compose(derivs)

    def __truediv__(self, o):
        t = _t(o)
        if t is not None:
            r = tm.recip(t)
            return Jet(self.dim, self.order, {k: tm.mul(v, r) for k, v in self.c.items()})
        if not isinstance(o, Jet):
            return NotImplemented
        return self * o.reciprocal()

    def __rtruediv__(self, o):
        o = self._lift(o)
        if o is None:
            return NotImplemented
        return o * self.reciprocal()

    def sqrt(self):
        f0 = self.c[()]
        s = tm.sqrt(f0)
        rs = tm.recip(s)
        derivs = [s]
        coef = Fraction(1)
        for n in range(1, self.order + 1):
            coef *= Fraction(1, 2) - (n - 1)
            derivs.append(tm.scale(tm.ipow(rs, 2 * n - 1), coef))
        return self.compose(derivs)

    def log(self):
        f0 = self.c[()]
        r = tm.recip(f0)
        derivs = [tm.log(f0)]
        for n in range(1, self.order + 1):
            derivs.append(tm.scale(tm.ipow(r, n), (-1) ** (n - 1) * math.factorial(n - 1)))
        return self.compose(derivs)

    def exp(self):
        e = tm.exp(self.c[()])
        return self.compose([e] * (self.order + 1))

    def sin(self):
        sn, cs = tm.fn('sin', [self.c[()]]), tm.fn('cos', [self.c[()]])
        cyc = [sn, cs, tm.neg(sn), tm.neg(cs)]
        return self.compose([cyc[n % 4] for n in range(self.order + 1)])

    def cos(self):
        sn, cs = tm.fn('sin', [self.c[()]]), tm.fn('cos', [self.c[()]])
        cyc = [cs, tm.neg(sn), tm.neg(cs), sn]
        return self.compose([cyc[n % 4] for n in range(self.order + 1)])

    def sinh(self):
        e = self.exp()
        return (e - e.reciprocal()) * Fraction(1, 2)

    def cosh(self):
        e = self.exp()
        return (e + e.reciprocal()) * Fraction(1, 2)

    def __pow__(self, p):
        if isinstance(p, SymReal):
            if p.t.op != 'c':
                # f ** p = exp(p log f)  (f > 0); tm.exp splits integer combinations of the monomials of p log f0
                return (self.log() * p).exp()
            p = p.t.val
        p = tm.rationalise(p)
        if p.denominator == 1 and 0 <= p.numerator <= 4:
            out = Jet.constant(1, self.dim, self.order)
            for _ in range(p.numerator):
                out = out * self
            return out
        f0 = self.c[()]
        h0 = tm.rpow(f0, p)
        r = tm.recip(f0)
        derivs = [h0]
        coef = Fraction(1)
        for n in range(1, self.order + 1):
            coef *= p - (n - 1)
            derivs.append(tm.scale(tm.mul(h0, tm.ipow(r, n)), coef))
        return self.compose(derivs)

    def __abs__(self):
        neg = bool(SymBool(tm.cmp0(self.c[()], '<')))
        return -self if neg else self

    def conjugate(self):
        return self

    @property
    def real(self):
        return self

    @property
    def imag(self):
        return 0.0

    # comparisons act on the value at the point --------------------------------
    def _cmp(self, o, f):
        if isinstance(o, Jet):
            b = o.c[()]
        else:
            b = _t(o)
            if b is None:
                return NotImplemented
        return SymBool(f(self.c[()], b))

    def __lt__(self, o):
        return self._cmp(o, tm.lt)

    def __le__(self, o):
        return self._cmp(o, tm.le)

    def __gt__(self, o):
        return self._cmp(o, lambda a, b: tm.lt(b, a))

    def __ge__(self, o):
        return self._cmp(o, lambda a, b: tm.le(b, a))

    def __eq__(self, o):
        return self._cmp(o, tm.eq)

    def __ne__(self, o):
        return self._cmp(o, tm.ne)

    def __hash__(self):
        return id(self)

    def __bool__(self):
        raise TypeError("truth value of a Jet requested")

    def __format__(self, spec):
        return "<jet>"

    def __repr__(self):
        return f"Jet(dim={self.dim}, order={self.order}, value=#{self.c[()].id})"


def jetarray(prefix, shape, dim, order, symmetric=False):
    """(shape..., 1, 1, 1) object array of fresh jets; symmetric => [i,j] and [j,i] share."""
    shape = tuple(shape)
    out = np.empty(shape + (1, 1, 1), dtype=object)
    made = {}
    for idx in np.ndindex(*shape):
        key = idx
        if symmetric and len(idx) == 2 and idx[0] > idx[1]:
            key = (idx[1], idx[0])
        if key not in made:
            made[key] = Jet.fresh(prefix + ''.join(map(str, key)), dim, order)
        out[idx + (0, 0, 0)] = made[key]
    return out


def value_term(x):
    """term of the value of a Jet / SymReal / number."""
    if isinstance(x, Jet):
        return x.c[()]
    t = _t(x)
    if t is None:
        raise TypeError(type(x))
    return t


def jmap(f, arr):
    out = np.empty(arr.shape, dtype=object)
    for idx in np.ndindex(*arr.shape):
        out[idx] = f(arr[idx])
    return out
