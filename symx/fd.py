"""Finite-difference back-ends layered under the *unmodified* AurelCore.

JetFD           : d3x/d3y/d3z are exact differentiation of Jet elements on a 1x1x1 grid
                  (the h -> 0 limit of the real operators); everything else (map1/2/3,
                  d3_scalar, d3_rank*tensor, coordinates helpers) is the real class.
UninterpretedFD : d3x/d3y/d3z return uninterpreted function applications memoised on the
                  argument term; sound for identities that hold for any derivative operator.
"""
import numpy as np

from aurel.finitedifference import FiniteDifference

from . import term as tm
from .sym import SymReal
from .jet import Jet

PARAM1 = {'xmin': 0.0, 'ymin': 0.0, 'zmin': 0.0, 'dx': 1.0, 'dy': 1.0, 'dz': 1.0,
          'Nx': 1, 'Ny': 1, 'Nz': 1}


def _map(f, arr):
    out = np.empty(np.shape(arr), dtype=object)
    for idx in np.ndindex(*np.shape(arr)):
        out[idx] = f(arr[idx])
    return out


class JetFD(FiniteDifference):
    def __init__(self, dim=3, **kw):
        super().__init__(dict(PARAM1), verbose=False, **kw)
        self.jet_dim = dim
        self.axes = {'x': dim - 3, 'y': dim - 2, 'z': dim - 1}
        self.calls = 0

    def _d(self, f, axis):
        self.calls += 1

        def one(e):
            if isinstance(e, Jet):
                return e.diff(axis)
            if isinstance(e, SymReal):
                if e.t.op == 'c':
                    return np.float64(0.0)
                raise TypeError("JetFD: derivative of a non-jet symbolic element")
            return np.float64(0.0)
        return _map(one, f)

    def d3x(self, f):
        return self._d(f, self.axes['x'])

    def d3y(self, f):
        return self._d(f, self.axes['y'])

    def d3z(self, f):
        return self._d(f, self.axes['z'])


class UninterpretedFD(FiniteDifference):
    def __init__(self, **kw):
        super().__init__(dict(PARAM1), verbose=False, **kw)

    def _d(self, f, name):
        def one(e):
            if isinstance(e, SymReal):
                if e.t.op == 'c':
                    return np.float64(0.0)
                return SymReal(tm.fn(name, [e.t]))
            return np.float64(0.0)
        return _map(one, f)

    def d3x(self, f):
        return self._d(f, 'dx')

    def d3y(self, f):
        return self._d(f, 'dy')

    def d3z(self, f):
        return self._d(f, 'dz')
