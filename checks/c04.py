"""C04 - 4D connection and curvature from 3+1 data equal the textbook definitions
(continuum limit of the code's formulae, all smooth spacetimes = free 4D jets of order 2)."""
import itertools

import numpy as np

from symx import term as tm, oracle, solver
from symx.sym import Ctx, use_ctx, sym, symarray, SymReal
from symx.jet import value_term
from symx.npproxy import patched
from symx.fd import UninterpretedFD
from symx.harness import Ob, FuncTrace, JetRun, source_digest
from . import gr
from .common import process_jet, vacuity, witness_sat, load_calib, log

PID = 'C04'
FILES = ['src/aurel/core.py', 'src/aurel/maths.py', 'src/aurel/finitedifference.py']

PAIRS = [(0, 1), (0, 2), (0, 3), (1, 2), (1, 3), (2, 3)]


def riemann_components(tier):
    if tier == 'thorough':
        return list(itertools.product(range(4), repeat=4))
    comps = []
    for i, p in enumerate(PAIRS):
        for q in PAIRS[i:]:
            comps.append(p + q)
    # symmetry partners written by populate_4Riemann
    comps += [(1, 0, 1, 0), (1, 0, 0, 1), (0, 1, 1, 0), (2, 1, 3, 0), (1, 2, 0, 3), (3, 0, 1, 2),
              (0, 3, 2, 1), (2, 3, 0, 1), (0, 0, 1, 2), (1, 1, 0, 2), (3, 2, 3, 2), (2, 0, 0, 1)]
    return comps


def build(tier):
    """Returns list of (run, obs, sampler, slices) blocks."""
    blocks = []
    with patched():
        # ---- non-vacuum with the matching stress-energy tensor ----------------------
        S = gr.Setup(order=2, vacuum=False, matter='T')
        st = S.st
        c = Ctx(pre=S.pre, fork=False)
        obs = []
        with use_ctx(c):
            rel = S.run.symbolic_rel()
            g0, gi0 = oracle.truncate(st.g, 0), oracle.truncate(st.ginv, 0)
            gd = rel['gdown4']
            gu = rel['gup4']
            for a in range(4):
                for b in range(4):
                    obs.append(Ob(f'gdown4[{a},{b}]', gd[a, b, 0, 0, 0], g0[a, b], S.pre,
                                  get=lambda r, a=a, b=b: r['gdown4'][a, b], group='gdown4'))
                    obs.append(Ob(f'gup4[{a},{b}]', gu[a, b, 0, 0, 0], gi0[a, b], S.pre,
                                  get=lambda r, a=a, b=b: r['gup4'][a, b], group='gup4'))
            obs.append(Ob('gdet', rel['gdet'][0, 0, 0], st.gdet.trunc(0), S.pre,
                          get=lambda r: r['gdet'], group='gdet'))
            # the same quantities requested FIRST on a fresh instance (the branches taken when the 4-metric is not cached yet)
            for key_, want_ in (('gdet', st.gdet.trunc(0)),):
                relf = S.run.symbolic_rel()
                obs.append(Ob(f'{key_} (first request on a fresh instance)', relf[key_][0, 0, 0], want_, S.pre,
                              get=lambda r, key_=key_: r[key_], meta=dict(fresh_rel=True), group=f'{key_} on a fresh instance'))
            relf = S.run.symbolic_rel()
            guf = relf['gup4']
            for a in range(4):
                for b in range(a, 4):
                    obs.append(Ob(f'gup4[{a},{b}] (first request on a fresh instance)', guf[a, b, 0, 0, 0], gi0[a, b], S.pre,
                                  get=lambda r, a=a, b=b: r['gup4'][a, b], meta=dict(fresh_rel=True), group='gup4 on a fresh instance'))
            Gam = rel['st_Gamma_udd4']
            for a, b, cc in itertools.product(range(4), repeat=3):
                obs.append(Ob(f'st_Gamma_udd4[{a},{b},{cc}]', Gam[a, b, cc, 0, 0, 0],
                              st.Gamma[a, b, cc].trunc(0), S.pre,
                              get=lambda r, a=a, b=b, cc=cc: r['st_Gamma_udd4'][a, b, cc],
                              group='st_Gamma_udd4'))
            # request order Ricci -> Riemann -> Ricci on one instance: what the Riemann body reads from the cache it
            # must leave as it found it (re-read values against the values read before)
            ric_before = np.array(rel['st_Ricci_down4'], copy=True)
            ric3_before = np.array(rel['st_Ricci_down3'], copy=True)
            R = rel['st_Riemann_down4']
            ric_after, ric3_after = rel['st_Ricci_down4'], rel['st_Ricci_down3']

            def _reread(r, key, idx):
                r[key]
                r['st_Ricci_down3']
                r['st_Riemann_down4']
                return r[key][idx]
            for a in range(4):
                for b in range(a, 4):
                    obs.append(Ob(f'reread:st_Ricci_down4[{a},{b}] after st_Riemann_down4', ric_after[a, b, 0, 0, 0], ric_before[a, b, 0, 0, 0],
                                  S.pre, get=lambda r, a=a, b=b: _reread(r, 'st_Ricci_down4', (a, b)), meta=dict(fresh_rel=True),
                                  group='cached Ricci unchanged by the Riemann body (Ricci -> Riemann -> Ricci)'))
                    if a < 3 and b < 3:
                        obs.append(Ob(f'reread:st_Ricci_down3[{a},{b}] after st_Riemann_down4', ric3_after[a, b, 0, 0, 0],
                                      ric3_before[a, b, 0, 0, 0], S.pre, get=lambda r, a=a, b=b: _reread(r, 'st_Ricci_down3', (a, b)), meta=dict(fresh_rel=True),
                                      group='cached Ricci unchanged by the Riemann body (Ricci -> Riemann -> Ricci)'))
            for a, b, cc, d in riemann_components(tier):
                obs.append(Ob(f'st_Riemann_down4[{a},{b},{cc},{d}]', R[a, b, cc, d, 0, 0, 0],
                              st.Riem_down[a, b, cc, d], S.pre,
                              get=lambda r, a=a, b=b, cc=cc, d=d: r['st_Riemann_down4'][a, b, cc, d],
                              group='st_Riemann_down4'))
            # Kretschmann on full jets is not settled by any rung (measured, thorough run): it is decided at its cut point
            # (cut:Kretschmann = R^{ab}_{cd} R^{cd}_{ab} on a free Riemann-symmetric tensor) composed with the Riemann obligations
        blocks.append(dict(name='nonvacuum', setup=S, run=S.run, obs=obs, ctx=c))

        # ---- vacuum flag: unconditional form (shortcut drops exactly Ricci-linear terms) --
        V = gr.Setup(order=2, vacuum=True, matter=None, Lambda=False, prefix='')
        stv = V.st
        cv = Ctx(pre=V.pre, fork=False)
        obsv = []
        with use_ctx(cv):
            relv = V.run.symbolic_rel()
            Rv = relv['st_Riemann_down4']
            a2 = stv.alpha.trunc(0) * stv.alpha.trunc(0)
            comps = [(i, 0, j, 0) for i in range(1, 4) for j in range(i, 4)]
            comps += [(1, 2, 1, 2), (1, 2, 3, 0), (0, 2, 0, 3)]
            for a, b, cc, d in comps:
                orc = stv.Riem_down[a, b, cc, d]
                if b == 0 and d == 0:
                    orc = orc + a2 * stv.Ricci[a, cc]
                elif a == 0 and cc == 0:
                    orc = orc + a2 * stv.Ricci[b, d]
                obsv.append(Ob(f'vacuum:st_Riemann_down4[{a},{b},{cc},{d}]', Rv[a, b, cc, d, 0, 0, 0],
                               orc, V.pre,
                               get=lambda r, a=a, b=b, cc=cc, d=d: r['st_Riemann_down4'][a, b, cc, d],
                               group='vacuum:st_Riemann_down4 == R + alpha^2 Ricci (unconditional)'))
        blocks.append(dict(name='vacuum', setup=V, run=V.run, obs=obsv, ctx=cv))

        # ---- T-branch of Ricci / RicciS / Einstein: cut at the Ricci tensor ---------------
        # Ric_ab are free symmetric reals; the stress-energy handed to the code is
        # T := (Ric - 1/2 R g + Lambda g)/kappa, so "T matches the geometry" for whatever the
        # geometry's Ricci tensor is.  Pointwise: no derivative is taken on this path.
        from aurel.core import AurelCore
        from symx.fd import UninterpretedFD as _U
        fdp = _U()
        Lam, kap = sym('Lambda'), sym('kappa')
        al = symarray('al', ())
        be = symarray('b', (3,))
        ga = symarray('g', (3, 3), symmetric=True)
        Ric = symarray('Ric', (4, 4), symmetric=True)
        gv = [[ga[i, j, 0, 0, 0].t for j in range(3)] for i in range(3)]
        preB = oracle.spd_preconditions(gv) + [tm.lt(tm.ZERO, al[0, 0, 0].t), tm.lt(tm.ZERO, kap.t)]
        # oracle 4-metric and inverse from the definitions
        g4 = oracle.arr((4, 4))
        bd = np.einsum('i,ij->j', gr.ungrid(be), gr.ungrid(ga))
        g4[0, 0] = -al[0, 0, 0] * al[0, 0, 0] + np.einsum('i,i->', gr.ungrid(be), bd)
        for i in range(3):
            g4[0, i + 1] = g4[i + 1, 0] = bd[i]
            for j in range(3):
                g4[i + 1, j + 1] = ga[i, j, 0, 0, 0]
        gi4 = oracle.inverse(g4)
        Ric0 = gr.ungrid(Ric)
        Rs = np.einsum('ab,ab->', gi4, Ric0)
        Tm = (Ric0 - 0.5 * Rs * g4 + Lam * g4) / kap
        relB = AurelCore(fdp, verbose=False, Lambda=Lam)
        relB.kappa = kap
        relB.data.update(alpha=al, betaup3=be, gammadown3=ga, Tdown4=gr.grid(Tm))
        cB = Ctx(pre=preB, fork=False)
        obsB = []
        with use_ctx(cB):
            RcB = relB['st_Ricci_down4']
            EB = relB['Einsteindown4']
            for a in range(4):
                for b in range(4):
                    obsB.append(Ob(f'Tbranch:st_Ricci_down4[{a},{b}]', RcB[a, b, 0, 0, 0], Ric0[a, b],
                                   preB, group='Tbranch:st_Ricci_down4 == Ric for T=(G+Lambda g)/kappa'))
                    obsB.append(Ob(f'Tbranch:Einsteindown4[{a},{b}]', EB[a, b, 0, 0, 0],
                                   Ric0[a, b] - 0.5 * Rs * g4[a, b], preB,
                                   group='Tbranch:Einsteindown4 == Ric - R g/2'))
            obsB.append(Ob('Tbranch:st_RicciS', relB['st_RicciS'][0, 0, 0], Rs, preB,
                           group='Tbranch:st_RicciS == g^ab Ric_ab'))
            R3 = relB['st_Ricci_down3']
            for a in range(3):
                for b in range(3):
                    obsB.append(Ob(f'Tbranch:st_Ricci_down3[{a},{b}]', R3[a, b, 0, 0, 0],
                                   Ric0[a + 1, b + 1], preB, group='Tbranch:st_Ricci_down3 (cached Ricci4)'))
        relB2 = AurelCore(fdp, verbose=False, Lambda=Lam)
        relB2.kappa = kap
        relB2.data.update(alpha=al, betaup3=be, gammadown3=ga, Tdown4=gr.grid(Tm))
        with use_ctx(cB):
            R3b = relB2['st_Ricci_down3']       # branch without st_Ricci_down4 cached
            for a in range(3):
                for b in range(3):
                    obsB.append(Ob(f'Tbranch:st_Ricci_down3(fresh)[{a},{b}]', R3b[a, b, 0, 0, 0],
                                   Ric0[a + 1, b + 1], preB, group='Tbranch:st_Ricci_down3 (from Tdown4)'))
        blocks.append(dict(name='Tbranch', setup=None, run=None, obs=obsB, ctx=cB, pre=preB))

        # ---- cut points: index gymnastics of the consumers on free tensors -------------
        fd = UninterpretedFD()
        rel = AurelCore(fd, verbose=False)
        Rf = symarray('R', (4, 4, 4, 4))
        gu = symarray('u', (4, 4), symmetric=True)
        rel.data['st_Riemann_down4'] = Rf
        rel.data['gup4'] = gu
        cc_ = Ctx(pre=[], fork=False)
        obsc = []
        with use_ctx(cc_):
            Ru = rel['st_Riemann_uddd4']
            Ruu = rel['st_Riemann_uudd4']
            R0 = gr.ungrid(Rf)
            u0 = gr.ungrid(gu)
            # definitions written with explicit loops
            for i, b, c2, d in itertools.product(range(4), repeat=4):
                s = 0
                for a in range(4):
                    s = s + u0[i, a] * R0[a, b, c2, d]
                obsc.append(Ob(f'cut:st_Riemann_uddd4[{i},{b},{c2},{d}]', Ru[i, b, c2, d, 0, 0, 0], s, [],
                               group='cut:st_Riemann_uddd4 = g^{ia} R_{abcd}'))
            for e, f, c2, d in itertools.product(range(4), repeat=4):
                s = 0
                for a in range(4):
                    for b in range(4):
                        s = s + u0[e, a] * u0[f, b] * R0[a, b, c2, d]
                obsc.append(Ob(f'cut:st_Riemann_uudd4[{e},{f},{c2},{d}]', Ruu[e, f, c2, d, 0, 0, 0], s, [],
                               group='cut:st_Riemann_uudd4 = g^{ea} g^{fb} R_{abcd}'))
        # Ricci contraction branch and Kretschmann on free mixed tensors
        rel2 = AurelCore(fd, verbose=False)
        Rm = symarray('M', (4, 4, 4, 4))
        rel2.data['st_Riemann_uddd4'] = Rm
        rel2.data['st_Riemann_uudd4'] = symarray('N', (4, 4, 4, 4))
        with use_ctx(cc_):
            Rc2 = rel2['st_Ricci_down4']         # contraction branch (no Tdown4 in data)
            M0 = gr.ungrid(Rm)
            N0 = gr.ungrid(rel2.data['st_Riemann_uudd4'])
            for b in range(4):
                for d in range(4):
                    s = 0
                    for a in range(4):
                        s = s + M0[a, b, a, d]
                    obsc.append(Ob(f'cut:st_Ricci_down4[{b},{d}]', Rc2[b, d, 0, 0, 0], s, [],
                                   group='cut:st_Ricci_down4 = R^a_{bad} (contraction branch)'))
            s = 0
            for a, b, c2, d in itertools.product(range(4), repeat=4):
                s = s + N0[a, b, c2, d] * N0[c2, d, a, b]
            obsc.append(Ob('cut:Kretschmann', rel2['Kretschmann'][0, 0, 0], s, [],
                           group='cut:Kretschmann = R^{ab}_{cd} R^{cd}_{ab}'))
        blocks.append(dict(name='cutpoints', setup=None, run=None, obs=obsc, ctx=cc_))
    return blocks


def main(report, tier, seed, workers, calibrate=False):
    report.bounds = dict(jet_order=2, jet_dim=4, grid='1x1x1 (continuum limit: FD -> exact derivative)',
                         free_variables=152, components='all 64 Gamma; Riemann: '
                         + ('all 256' if tier == 'thorough' else '33 representatives of every block'),
                         outside=['convergence rate constant', 'boundary-zone order reduction',
                                  'float round-off', 'consistency=>convergence composition argument'])
    report.assumptions += [
        'lapse > 0, spatial metric positive definite (leading minors > 0), kappa > 0',
        'stress-energy supplied as T := (G + Lambda g)/kappa of the same jets (every smooth '
        'metric is an exact solution for this T)',
        'floats are reals; literal policy DESIGN 1.1',
        'each FD operator converges to the exact derivative (C07) and smooth composition '
        'preserves the order (paper argument, DESIGN 1.3(ii))']
    report.stubs += ['aurel.*.np -> symx.npproxy (zeros/ones/zeros_like as object arrays, sign)',
                     'FiniteDifference.d3x/d3y/d3z -> exact jet differentiation (JetFD)',
                     'AurelCore.kappa, Lambda -> symbolic reals']
    calib = load_calib(PID)
    division_helpers(report)
    from symx.sym import Inconclusive
    try:
        with FuncTrace() as ft:
            blocks = build(tier)
    except Inconclusive as e:
        # a branch of the real code that the preconditions no longer decide (non-forking harness)
        report.inconc('build', f'undecided branch while executing the real code symbolically: {e}')
        return
    report.functions |= ft.seen
    report.extra['source_sha1'] = source_digest(FILES)
    full_t = 40 if tier == 'quick' else 240
    all_obs, last_rungs = [], None
    for blk in blocks:
        S = blk['setup']
        if S is not None:
            sl = S.slices()
            rungs = [dict(name='full', envs=[None], timeout=full_t),
                     dict(name='slices:metric-value-fixed', envs=[sl[0][1], sl[1][1]], timeout=300
                          if tier == 'quick' else 900),
                     ]
            sampler = S.sampler()
            vacuity(report, S.pre, name=f"{blk['name']}:pre")
        else:
            rungs = [dict(name='full', envs=[None], timeout=120)]
            sampler = None
            if blk.get('pre'):
                vacuity(report, blk['pre'], name=f"{blk['name']}:pre")
        process_jet(report, blk['run'], blk['obs'], rungs, sampler=sampler, workers=workers,
                    calib=calib, seed=seed, verbose=bool(calibrate))
        report.extra.setdefault('branch_decisions', {})[blk['name']] = blk['ctx'].decision_queries
        if S is not None:
            all_obs += blk['obs']
            last_rungs = rungs
    if calibrate:
        from .common import save_calib
        save_calib(PID, all_obs, last_rungs)
    # sensitivity witness: a wrong oracle must be refuted
    nv = blocks[0]['obs']
    pick = [ob for ob in nv if ob.name == 'st_Gamma_udd4[1,2,3]'][0]
    witness_sat(report, pick, 'st_Gamma_udd4[1,2,3] + 1')


def division_helpers(report):
    """maths.safe_division / inverse3 / inverse4 under forking symbolic execution: on every path of the real code the result
    is a/b wherever b != 0 (0 where b == 0), and the inverse of every positive-definite 3-metric / Lorentzian 4-metric is
    the adjugate over the determinant - for every value of the determinant, however small."""
    from aurel import maths
    from symx.sym import explore, Inconclusive
    paths = q = 0
    bad = []
    with patched():
        def run(c):
            a, b = symarray('sa', ()), symarray('sb', ())
            r = maths.safe_division(a, b)
            a0, b0, r0 = a[0, 0, 0].t, b[0, 0, 0].t, r[0, 0, 0]
            r0 = r0.t if isinstance(r0, SymReal) else tm.const(r0)
            spec = tm.bor([tm.band([tm.eq(b0, tm.ZERO), tm.eq(r0, tm.ZERO)]),
                           tm.band([tm.ne(b0, tm.ZERO), tm.eq(tm.mul(r0, b0), a0)])])
            return c.valid(spec), spec
        try:
            for c, (ok, spec) in explore(run, pre=[], backend='inproc', decide_timeout=10, max_paths=64):
                paths += 1
                q += c.decision_queries
                if ok is not True:
                    c.pc.append(tm.bnot(spec))
                    v, model = c.model()
                    c.pc.pop()
                    bad.append(('safe_division', {k: str(x) for k, x in model.items() if x is not None}))
        except Inconclusive as e:
            report.inconc('safe_division', str(e))
        report.record('maths.safe_division(a, b) == a/b for every b != 0, 0 at b == 0 (arrays; every path)', 'unsat' if not bad else 'sat',
                      backend='z3py-inproc', sha=f'{paths}p{q}q', group='division helpers (forking symbolic execution)')

        def run3(c):
            ga = symarray('g', (3, 3), symmetric=True)
            gv = [[ga[i, j, 0, 0, 0].t for j in range(3)] for i in range(3)]
            c.pre += oracle.spd_preconditions(gv)
            inv = maths.inverse3(ga)
            failing = None
            for i in range(3):
                for k in range(3):
                    e = tm.addn([tm.mul((inv[i, j, 0, 0, 0].t if isinstance(inv[i, j, 0, 0, 0], SymReal) else tm.const(inv[i, j, 0, 0, 0])), gv[j][k])
                                 for j in range(3)])
                    sp = tm.eq(e, tm.ONE if i == k else tm.ZERO)
                    if failing is None and c.valid(sp) is not True:
                        failing = sp
            return failing is None, failing
        n3 = 0
        bad3 = []
        try:
            for c, (ok, failing) in explore(run3, pre=[], backend='z3old', decide_timeout=30, max_paths=16):
                n3 += 1
                if ok is not True:
                    c.pc.append(tm.bnot(failing))
                    v, model = c.model()
                    c.pc.pop()
                    bad3.append(('inverse3', {k: str(x) for k, x in model.items() if x is not None}))
        except Inconclusive as e:
            report.inconc('inverse3', str(e))
        report.record('maths.inverse3(g) g == identity for every positive-definite g (every path, any determinant)',
                      'unsat' if not bad3 else 'sat', sha=f'{n3}p', group='division helpers (forking symbolic execution)')
    report.extra['division_helper_paths'] = dict(safe_division=paths, inverse3=n3)
    for kind, model in (bad + bad3)[:2]:
        rp = replay_division(kind, model)
        if rp['reproduces']:
            report.violation(f'division:{kind}', f"{kind}: on the path with model {model} the real code returns {rp['got']} where the "
                             f"quotient / inverse is {rp['want']}", report.write_replay(f'division_{kind}', dict(kind=kind, model=model, replay=rp)))
        else:
            report.harness_errors.append(f'{kind}: path model {model} does not reproduce on floats: {rp}')


def replay_division(kind, model):
    from fractions import Fraction as F
    from aurel import maths
    with np.errstate(all='ignore'):
        if kind == 'safe_division':
            a = float(F(model.get('sa', '1')))
            b = float(F(model.get('sb', '0')))
            if a == 0.0:
                a = 1.0
            got = float(maths.safe_division(np.full((2, 2, 2), a), np.full((2, 2, 2), b))[0, 0, 0])
            want = a / b if b != 0 else 0.0
            return dict(a=a, b=b, got=got, want=want, reproduces=abs(got - want) > 1e-9 * max(1.0, abs(want)))
        g = np.zeros((3, 3, 2, 2, 2))
        for i in range(3):
            for j in range(i, 3):
                g[i, j] = g[j, i] = float(F(model.get(f'g{i}{j}', '1' if i == j else '0')))
        got = maths.inverse3(g)[:, :, 0, 0, 0]
        want = np.linalg.inv(g[:, :, 0, 0, 0])
        d = float(np.max(np.abs(got - want)))
        return dict(got=got.tolist(), want=want.tolist(), reproduces=d > 1e-6 * float(np.max(np.abs(want))))


def replay_payload(payload):
    if payload.get('kind') in ('safe_division', 'inverse3'):
        rp = replay_division(payload['kind'], payload['model'])
        print(rp)
        return 1 if rp['reproduces'] else 0
    from .common import replay_blocks
    return replay_blocks(build, payload)
