"""C06 - on exact solutions the constraints vanish and every dt-quantity equals the true
coordinate-time derivative.  Every smooth 4-metric is an exact solution for
T := (G + Lambda g)/kappa, so the quantifier is the free 4D jets of C04."""
import itertools
from fractions import Fraction as F

import numpy as np

from symx import term as tm, oracle
from symx.sym import Ctx, use_ctx
from symx.jet import Jet
from symx.npproxy import patched
from symx.harness import Ob, FuncTrace, source_digest
from . import gr
from .common import process_jet, vacuity, witness_sat, load_calib, save_calib

PID = 'C06'
FILES = ['src/aurel/core.py']


def T0(x):
    return x.trunc(0) if isinstance(x, Jet) else x


def dt(x):
    return x.diff(0)


def conformal(st):
    """jets of psi, phi, gammatilde_ij, gammatilde^ij, Atilde_ij, Gammatilde^i, K from the 4D jets."""
    gam, gi = st.gamma, st.gammainv
    K = st.Kdown                                   # order n-1
    psi = oracle.det(gam) ** F(1, 12)
    phi = psi.log()
    gt = oracle.arr((3, 3))
    gti = oracle.arr((3, 3))
    for i in range(3):
        for j in range(3):
            gt[i, j] = psi ** (-4) * gam[i, j]
            gti[i, j] = psi ** 4 * gi[i, j]
    trK = np.einsum('ij,ij->', oracle.truncate(gi, 1), K)
    At = oracle.arr((3, 3))
    for i in range(3):
        for j in range(3):
            At[i, j] = psi.trunc(1) ** (-4) * (K[i, j] - gam[i, j].trunc(1) * trK / 3)
    Gt = np.array([-sum(gti[i, j].diff(j + 1) for j in range(3)) for i in range(3)], dtype=object)
    return dict(psi=psi, phi=phi, gt=gt, gti=gti, trK=trK, At=At, Gt=Gt, K=K)


def build(tier):
    blocks = []
    with patched():
        S = gr.Setup(order=2, vacuum=False, matter='T')
        st = S.st
        cf = conformal(st)
        c = Ctx(pre=S.pre, fork=False)
        obs = []
        with use_ctx(c):
            rel = S.run.symbolic_rel()
            obs.append(Ob('Hamiltonian', rel['Hamiltonian'][0, 0, 0], tm.ZERO, S.pre,
                          get=lambda r: r['Hamiltonian'], group='Hamiltonian == 0'))
            M = rel['Momentumup3']
            Md = rel['Momentumdown3']
            for i in range(3):
                obs.append(Ob(f'Momentumup3[{i}]', M[i, 0, 0, 0], tm.ZERO, S.pre,
                              get=lambda r, i=i: r['Momentumup3'][i], group='Momentumup3 == 0'))
                obs.append(Ob(f'Momentumdown3[{i}]', Md[i, 0, 0, 0], tm.ZERO, S.pre,
                              get=lambda r, i=i: r['Momentumdown3'][i], group='Momentumdown3 == 0'))
            obs.append(Ob('rho_n_fromHam', rel['rho_n_fromHam'][0, 0, 0], rel['rho_n'][0, 0, 0], S.pre,
                          group='rho_n_fromHam == rho_n'))
            ff = rel['fluxup3_n_fromMom']
            fl = rel['fluxup3_n']
            for i in range(3):
                obs.append(Ob(f'fluxup3_n_fromMom[{i}]', ff[i, 0, 0, 0], fl[i, 0, 0, 0], S.pre,
                              group='fluxup3_n_fromMom == fluxup3_n'))
            # time derivatives: right-hand sides are d/dt of the jet of the quantity itself
            obs.append(Ob('dtKtrace', rel['dtKtrace'][0, 0, 0], dt(cf['trK']), S.pre,
                          get=lambda r: r['dtKtrace'], group='dtKtrace == d_t K'))
            obs.append(Ob('dtphi_bssnok', T0(rel['dtphi_bssnok'][0, 0, 0]), T0(dt(cf['phi'])), S.pre,
                          get=lambda r: r['dtphi_bssnok'], group='dtphi_bssnok == d_t phi'))
            dgu = rel['dtgammaup3']
            dgt = rel['dtgammadown3_bssnok']
            dAt = rel['dtAdown3_bssnok']
            for i in range(3):
                for j in range(i, 3):
                    obs.append(Ob(f'dtgammaup3[{i},{j}]', T0(dgu[i, j, 0, 0, 0]), T0(dt(st.gammainv[i, j])),
                                  S.pre, get=lambda r, i=i, j=j: r['dtgammaup3'][i, j],
                                  group='dtgammaup3 == d_t gamma^ij'))
                    obs.append(Ob(f'dtgammadown3_bssnok[{i},{j}]', T0(dgt[i, j, 0, 0, 0]),
                                  T0(dt(cf['gt'][i, j])), S.pre,
                                  get=lambda r, i=i, j=j: r['dtgammadown3_bssnok'][i, j],
                                  group='dtgammadown3_bssnok == d_t gammatilde_ij'))
                    obs.append(Ob(f'dtAdown3_bssnok[{i},{j}]', T0(dAt[i, j, 0, 0, 0]),
                                  T0(dt(cf['At'][i, j])), S.pre,
                                  get=lambda r, i=i, j=j: r['dtAdown3_bssnok'][i, j],
                                  group='dtAdown3_bssnok == d_t Atilde_ij'))
            dG = rel['dts_Gamma_bssnok']
            for i in range(3):
                obs.append(Ob(f'dts_Gamma_bssnok[{i}]', T0(dG[i, 0, 0, 0]), T0(dt(cf['Gt'][i])), S.pre,
                              get=lambda r, i=i: r['dts_Gamma_bssnok'][i],
                              group='dts_Gamma_bssnok == d_t Gammatilde^i'))
        blocks.append(dict(name='nonvacuum', setup=S, run=S.run, obs=obs, ctx=c))

        # vacuum flag, unconditional form: the shortcut drops exactly the matter terms, which for
        # these jets are the stated contractions of the reference Einstein tensor
        V = gr.Setup(order=2, vacuum=True, matter=None, Lambda=False)
        sv = V.st
        cv = Ctx(pre=V.pre, fork=False)
        obsv = []
        with use_ctx(cv):
            relv = V.run.symbolic_rel()
            n = sv.normal_up
            G = sv.Einstein
            Gnn = np.einsum('ab,a,b->', G, n, n)
            obsv.append(Ob('vacuum:Hamiltonian', relv['Hamiltonian'][0, 0, 0], 2 * Gnn, V.pre,
                           get=lambda r: r['Hamiltonian'],
                           group='vacuum:Hamiltonian == 2 G_ab n^a n^b (unconditional)'))
            gi0 = oracle.truncate(sv.gammainv, 0)
            Mv = relv['Momentumup3']
            for i in range(3):
                want = -sum(gi0[i, j] * G[j + 1, b] * n[b] for j in range(3) for b in range(4))
                obsv.append(Ob(f'vacuum:Momentumup3[{i}]', Mv[i, 0, 0, 0], want, V.pre,
                               get=lambda r, i=i: r['Momentumup3'][i],
                               group='vacuum:Momentumup3 == -gamma^ij G_jb n^b (unconditional)'))
            if tier == 'thorough':
                cfv = conformal(sv)
                a0 = sv.alpha.trunc(0)
                trG = sum(gi0[i, j] * G[i + 1, j + 1] for i in range(3) for j in range(3))
                obsv.append(Ob('vacuum:dtKtrace', relv['dtKtrace'][0, 0, 0],
                               dt(cfv['trK']) - 0.5 * a0 * (Gnn + trG), V.pre,
                               get=lambda r: r['dtKtrace'],
                               group='vacuum:dtKtrace == d_t K - alpha(G_nn + gamma^ij G_ij)/2'))
        blocks.append(dict(name='vacuum', setup=V, run=V.run, obs=obsv, ctx=cv))
    return blocks


def main(report, tier, seed, workers, calibrate=False):
    report.bounds = dict(jet_order=2, jet_dim=4, grid='1x1x1 (continuum limit)', free_variables=152,
                         outside=['float round-off', 'consistency=>convergence composition argument',
                                  'rate constant of convergence'])
    report.assumptions += ['lapse > 0, spatial metric positive definite, kappa > 0',
                           'T := (G + Lambda g)/kappa of the same jets', 'floats are reals; literal policy',
                           'BSSNOK quantities: slices with the metric value at the point a designed rational '
                           'matrix of determinant 2^12 (psi = 2); all derivatives, lapse and shift free']
    report.stubs += ['aurel.*.np -> symx.npproxy', 'FiniteDifference.d3x/d3y/d3z -> exact jet differentiation',
                     'AurelCore.kappa, Lambda -> symbolic reals']
    calib = load_calib(PID)
    with FuncTrace() as ft:
        blocks = build(tier)
    report.functions |= ft.seen
    report.extra['source_sha1'] = source_digest(FILES)
    all_obs, rungs = [], None
    for blk in blocks:
        S = blk['setup']
        vacuity(report, S.pre, name=f"{blk['name']}:pre")
        sl = S.slices()
        rungs = [dict(name='full', envs=[None], timeout=60 if tier == 'quick' else 300),
                 dict(name='slices:metric-value-fixed', envs=[sl[0][1], sl[1][1]],
                      timeout=300 if tier == 'quick' else 900),
                 dict(name='slices:metric-jets-fixed|gauge-fixed', envs=[sl[3][1], sl[4][1], sl[5][1]],
                      timeout=300 if tier == 'quick' else 900)]
        process_jet(report, blk['run'], blk['obs'], rungs, sampler=S.sampler(), workers=workers,
                    calib=calib, seed=seed, verbose=bool(calibrate))
        report.extra.setdefault('branch_decisions', {})[blk['name']] = blk['ctx'].decision_queries
        all_obs += blk['obs']
    if calibrate:
        save_calib(PID, all_obs, rungs)
    pick = [ob for ob in blocks[0]['obs'] if ob.name == 'Hamiltonian'][0]
    witness_sat(report, pick, 'Hamiltonian == 1 (wrong)')


def replay_payload(payload):
    from .common import replay_blocks
    return replay_blocks(build, payload)
