"""C08 - pointwise tensor-algebra identities (all reals) and safe_division (IEEE-754, QF_FP)."""
import ast
import inspect
import itertools
import math
import os
import textwrap
from fractions import Fraction as F

import numpy as np

from symx import term as tm, oracle, solver
from symx.sym import Ctx, use_ctx, sym, symarray, SymReal
from symx.npproxy import patched
from symx.harness import Ob, FuncTrace, JetRun, source_digest
from . import gr
from .common import process_jet, vacuity, witness_sat

PID = 'C08'
FILES = ['src/aurel/maths.py', 'src/aurel/core.py']
POINT_RES = ((3, 1.0), (3, 0.5))


class PointSetup:
    def __init__(self, shift_as=None):
        self.al = symarray('al', ())
        self.be = symarray('b', (3,))
        self.ga = symarray('g', (3, 3), symmetric=True)
        self.K = symarray('K', (3, 3), symmetric=True)
        gv = [[self.ga[i, j, 0, 0, 0].t for j in range(3)] for i in range(3)]
        self.pre = oracle.spd_preconditions(gv) + [tm.lt(tm.ZERO, self.al[0, 0, 0].t)]
        inputs = dict(alpha=self.al, betaup3=self.be, gammadown3=self.ga, Kdown3=self.K)
        if shift_as is not None:
            # the shift supplied through ONE Cartesian component only (the other two keep their zero default)
            ax = 'xyz'.index(shift_as[-1])
            del inputs['betaup3']
            inputs[shift_as] = self.be[ax]
            self.shift_axis = ax
        self.run = JetRun(3, inputs, self.pre, fdkind='unint', resolutions=POINT_RES, fd_order=2)

    def sampler(self):
        def f(rng):
            env = {}
            for (i, j), v in gr.DESIGNED_GAMMA[rng.randrange(2)].items():
                env[f'g{i}{j}'] = F(v)
            env['al'] = F(rng.randint(4, 16), 8)
            for i in range(3):
                env[f'b{i}'] = F(rng.choice([-7, -3, 2, 5]), 8)
                for j in range(i, 3):
                    env[f'K{i}{j}'] = F(rng.choice([-7, -3, 1, 2, 5]), 8)
            return env
        return f


def delta(i, j):
    return 1 if i == j else 0


def build(tier, ctx_metric=None, ctx_algebra=None):
    blocks = []
    with patched():
        S = PointSetup()
        c = ctx_metric or Ctx(pre=S.pre, fork=False)
        if ctx_metric is not None:
            c.pre = list(S.pre)
        obs = []

        def P(name, impl, want, group, get=None):
            obs.append(Ob(name, impl, want, S.pre, group=group, get=get))

        with use_ctx(c):
            rel = S.run.symbolic_rel()
            al = S.al[0, 0, 0]
            be, ga, K = gr.ungrid(S.be), gr.ungrid(S.ga), gr.ungrid(S.K)
            E = lambda a: gr.ungrid(a)                                   # noqa: E731
            gu3, gd4, gu4 = E(rel['gammaup3']), E(rel['gdown4']), E(rel['gup4'])
            # independent reference objects
            gi3 = oracle.inverse(ga)
            bd = np.einsum('i,ij->j', be, ga)
            for i in range(3):
                for j in range(3):
                    P(f'gammaup3.gammadown3[{i},{j}]', sum(gu3[i, k] * ga[k, j] for k in range(3)),
                      delta(i, j), 'gammaup3 gammadown3 == I')
            for a in range(4):
                for b in range(4):
                    P(f'gup4.gdown4[{a},{b}]', sum(gu4[a, k] * gd4[k, b] for k in range(4)), delta(a, b),
                      'gup4 gdown4 == I')
            P('gdown4[0,0]', gd4[0, 0], -al * al + sum(be[i] * bd[i] for i in range(3)),
              'g_tt == -alpha^2 + beta_k beta^k', get=lambda r: r['gdown4'][0, 0])
            for i in range(3):
                P(f'gdown4[0,{i + 1}]', gd4[0, i + 1], bd[i], 'g_ti == beta_i',
                  get=lambda r, i=i: r['gdown4'][0, i + 1])
                P(f'gdown4[{i + 1},0]', gd4[i + 1, 0], bd[i], 'g_ti == beta_i')
                for j in range(3):
                    P(f'gdown4[{i + 1},{j + 1}]', gd4[i + 1, j + 1], ga[i, j], 'g_ij == gamma_ij')
            P('gammadet', rel['gammadet'][0, 0, 0], oracle.det(ga), 'determinant3 == Leibniz expansion',
              get=lambda r: r['gammadet'])
            P('gdet(determinant4 branch)', rel['gdet'][0, 0, 0], oracle.det(gd4),
              'determinant4 == Leibniz expansion', get=lambda r: r['gdet'])
            P('gdet == -alpha^2 gammadet', rel['gdet'][0, 0, 0], -al * al * oracle.det(ga),
              'det g == -alpha^2 det gamma')
            nu_, nd = E(rel['nup4']), E(rel['ndown4'])
            gd4s, gu4s = E(rel['gammadown4']), E(rel['gammaup4'])
            P('n^mu n_mu', sum(nu_[a] * nd[a] for a in range(4)), -1, 'n.n == -1')
            P('g_mn n^m n^n', sum(gd4[a, b] * nu_[a] * nu_[b] for a in range(4) for b in range(4)), -1,
              'n.n == -1')
            for a in range(4):
                P(f'ndown4[{a}] == g n^mu', nd[a], sum(gd4[a, b] * nu_[b] for b in range(4)),
                  'n_mu == g_mu_nu n^nu')
                P(f'n_mu gammaup4[{a}]', sum(nd[b] * gu4s[b, a] for b in range(4)), 0,
                  'n_mu gamma^{mu nu} == 0')
                P(f'n^mu gammadown4[{a}]', sum(nu_[b] * gd4s[b, a] for b in range(4)), 0,
                  'n^mu gamma_{mu nu} == 0')
                for b in range(4):
                    P(f'gammadown4+nn[{a},{b}]', gd4s[a, b] - nd[a] * nd[b], gd4[a, b],
                      'gamma_{mu nu} == g_{mu nu} + n_mu n_nu')
        blocks.append(dict(name='metric', setup=S, run=S.run, obs=obs, ctx=c))

        # second instance (fresh cache: gdet takes the -alpha^2 gammadet branch)
        S2 = PointSetup()
        c2 = ctx_algebra or Ctx(pre=S2.pre, fork=False)
        if ctx_algebra is not None:
            c2.pre = list(S2.pre)
        obs2 = []

        def P2(name, impl, want, group, get=None):
            obs2.append(Ob(name, impl, want, S2.pre, group=group, get=get))

        with use_ctx(c2):
            rel = S2.run.symbolic_rel()
            al = S2.al[0, 0, 0]
            be, ga, K = gr.ungrid(S2.be), gr.ungrid(S2.ga), gr.ungrid(S2.K)
            gi3 = oracle.inverse(ga)
            gu_first = gr.ungrid(rel['gup4'])          # requested before gdown4 has ever been cached
            bd_ = np.einsum('i,ij->j', be, ga)
            g4o = oracle.arr((4, 4))
            g4o[0, 0] = -al * al + sum(be[i] * bd_[i] for i in range(3))
            for i in range(3):
                g4o[0, i + 1] = g4o[i + 1, 0] = bd_[i]
                for j in range(3):
                    g4o[i + 1, j + 1] = ga[i, j]
            for a in range(4):
                for b in range(4):
                    P2(f'gup4(first request).g[{a},{b}]', sum(gu_first[a, k] * g4o[k, b] for k in range(4)), delta(a, b),
                       'gup4 (requested first on a fresh instance) is the inverse of the 4-metric')
            P2('gdet(fresh branch)', rel['gdet'][0, 0, 0], -al * al * oracle.det(ga),
               'gdet == -alpha^2 gammadet (fresh)', get=lambda r: r['gdet'])
            E = gr.ungrid
            Ku, A, Au = E(rel['Kup3']), E(rel['Adown3']), E(rel['Aup3'])
            bdn = E(rel['betadown3'])
            trK = sum(gi3[i, j] * K[i, j] for i in range(3) for j in range(3))
            P2('Ktrace', rel['Ktrace'][0, 0, 0], trK, 'Ktrace == gamma^ij K_ij', get=lambda r: r['Ktrace'])
            P2('betamag', rel['betamag'][0, 0, 0], sum(be[i] * ga[i, j] * be[j] for i in range(3) for j in range(3)),
               'betamag == beta_k beta^k')
            for i in range(3):
                P2(f'betadown3[{i}]', bdn[i], sum(ga[i, j] * be[j] for j in range(3)), 'betadown3 == lower(beta)')
                for j in range(3):
                    P2(f'Kup3[{i},{j}]', Ku[i, j],
                       sum(gi3[i, a] * gi3[j, b] * K[a, b] for a in range(3) for b in range(3)),
                       'Kup3 == raise(K)', get=lambda r, i=i, j=j: r['Kup3'][i, j])
                    P2(f'lower(Kup3)[{i},{j}]', sum(ga[i, a] * ga[j, b] * Ku[a, b] for a in range(3) for b in range(3)),
                       K[i, j], 'lower(raise(K)) == K')
                    P2(f'Adown3[{i},{j}]', A[i, j], K[i, j] - ga[i, j] * trK / 3, 'Adown3 == K - gamma K/3',
                       get=lambda r, i=i, j=j: r['Adown3'][i, j])
                    P2(f'Aup3[{i},{j}]', Au[i, j],
                       sum(gi3[i, a] * gi3[j, b] * (K[a, b] - ga[a, b] * trK / 3) for a in range(3) for b in range(3)),
                       'Aup3 == raise(A)')
            P2('trace(Adown3)', sum(gi3[i, j] * A[i, j] for i in range(3) for j in range(3)), 0,
               'gamma^ij A_ij == 0')
            tf2 = E(rel.tracefree3(rel['Adown3']))
            for i in range(3):
                for j in range(3):
                    P2(f'tracefree3 idempotent[{i},{j}]', tf2[i, j], A[i, j], 'tracefree3 idempotent')
            A2 = sum(A[i, j] * Au[i, j] for i in range(3) for j in range(3)) * 0.5
            P2('A2', rel['A2'][0, 0, 0], A2, 'A2 == A_ij A^ij / 2', get=lambda r: r['A2'])
            # symmetrise / antisymmetrise on a free (non-symmetric) tensor
            from aurel import maths
            X = symarray('X', (4, 4))
            sy, an = E(maths.symmetrise_tensor(X)), E(maths.antisymmetrise_tensor(X))
            X0 = E(X)
            for a in range(4):
                for b in range(4):
                    P2(f'sym+antisym[{a},{b}]', sy[a, b] + an[a, b], X0[a, b], 'symmetrise + antisymmetrise == id')
                    P2(f'sym symmetric[{a},{b}]', sy[a, b], sy[b, a], 'symmetrise output symmetric')
                    P2(f'antisym antisymmetric[{a},{b}]', an[a, b], -an[b, a], 'antisymmetrise output antisymmetric')
            # Levi-Civita tensors
            e3, e4 = E(rel.levicivita_down3()), E(rel.levicivita_down4())
            sg = oracle.det(ga).sqrt()
            for p in itertools.product(range(3), repeat=3):
                want = oracle.perm_sign(p) * sg if len(set(p)) == 3 else 0
                P2(f'levicivita_down3{list(p)}', e3[p], want, 'levicivita_down3 == sqrt(gamma) [ijk]')
            comps4 = list(itertools.product(range(4), repeat=4))
            if tier == 'quick':
                comps4 = [q for q in comps4 if len(set(q)) == 4] + [(0, 0, 1, 2), (1, 2, 3, 3), (2, 1, 2, 0)]
            for p in comps4:
                want = oracle.perm_sign(p) * al * sg if len(set(p)) == 4 else 0
                P2(f'levicivita_down4{list(p)}', e4[p], want, 'levicivita_down4 == alpha sqrt(gamma) [abcd]')
        blocks.append(dict(name='curvature-algebra', setup=S2, run=S2.run, obs=obs2, ctx=c2))

        # 3+1 -> 4D embedding helper requested FIRST on an instance whose shift comes through a single component
        for comp in ('betax', 'betay', 'betaz'):
            S5 = PointSetup(shift_as=comp)
            c5 = Ctx(pre=S5.pre, fork=False)
            obs5 = []
            with use_ctx(c5):
                rel = S5.run.symbolic_rel()
                K5 = gr.ungrid(S5.K)
                bcomp = S5.be[S5.shift_axis, 0, 0, 0]
                bvec = [bcomp if i == S5.shift_axis else 0 for i in range(3)]
                K4 = gr.ungrid(rel.s_to_st(S5.K))
                want = oracle.arr((4, 4))
                want[0, 0] = sum(bvec[i] * bvec[j] * K5[i, j] for i in range(3) for j in range(3))
                for k in range(3):
                    want[0, k + 1] = want[k + 1, 0] = sum(bvec[i] * K5[i, k] for i in range(3))
                    for l in range(3):
                        want[k + 1, l + 1] = K5[k, l]
                for a_ in range(4):
                    for b_ in range(a_, 4):
                        obs5.append(Ob(f's_to_st(Kdown3)[{a_},{b_}] shift given as {comp} only', K4[a_, b_], want[a_, b_], S5.pre,
                                       group='s_to_st first request, shift through one component',
                                       get=lambda r, a_=a_, b_=b_: r.s_to_st(r['Kdown3'])[a_, b_], meta=dict(fresh_rel=True)))
            blocks.append(dict(name=f's_to_st({comp})', setup=S5, run=S5.run, obs=obs5, ctx=c5))

        # conformal quantities (root atom psi = det^(1/12)): designed metric values, rest free
        S3 = PointSetup()
        c3 = ctx_algebra or Ctx(pre=S3.pre, fork=False)
        if ctx_algebra is not None:
            c3.pre = list(S3.pre)
        obs3 = []

        def P3(name, impl, want, group):
            obs3.append(Ob(name, impl, want, S3.pre, group=group))

        with use_ctx(c3):
            rel = S3.run.symbolic_rel()
            E = gr.ungrid
            ga = E(S3.ga)
            gt, gti = E(rel['gammadown3_bssnok']), E(rel['gammaup3_bssnok'])
            At, Atu = E(rel['Adown3_bssnok']), E(rel['Aup3_bssnok'])
            psi = rel['psi_bssnok'][0, 0, 0]
            A = E(rel['Adown3'])
            gu3 = E(rel['gammaup3'])
            P3('det gammatilde', oracle.det(gt), 1, 'det gammatilde == 1')
            P3('psi^12 == gammadet', psi ** 12, oracle.det(ga), 'psi^12 == det gamma')
            for i in range(3):
                for j in range(3):
                    P3(f'gammatilde^ik gammatilde_kj[{i},{j}]', sum(gti[i, k] * gt[k, j] for k in range(3)),
                       delta(i, j), 'gammaup3_bssnok gammadown3_bssnok == I')
                    P3(f'gammaup3_bssnok[{i},{j}]', gti[i, j], psi ** 4 * gu3[i, j], 'gammatilde^ij == psi^4 gamma^ij')
                    P3(f'Adown3_bssnok[{i},{j}]', At[i, j] * psi ** 4, A[i, j], 'Atilde_ij == psi^-4 A_ij')
                    P3(f'Aup3_bssnok[{i},{j}]', Atu[i, j],
                       sum(gti[i, a] * gti[j, b] * At[a, b] for a in range(3) for b in range(3)),
                       'Atilde^ij == raise with gammatilde')
            P3('trace Atilde', sum(gti[i, j] * At[i, j] for i in range(3) for j in range(3)), 0,
               'gammatilde^ij Atilde_ij == 0')
            P3('A2_bssnok', rel['A2_bssnok'][0, 0, 0], sum(At[i, j] * Atu[i, j] for i in range(3) for j in range(3)),
               'A2_bssnok == Atilde_ij Atilde^ij')
        blocks.append(dict(name='conformal', setup=S3, run=None, obs=obs3, ctx=c3, sliced=True))

        # populate_4Riemann on arbitrary inputs with the input symmetries (parametrised)
        from aurel import maths
        obs4 = []
        c4 = Ctx(pre=[], fork=False)
        with use_ctx(c4):
            # R_ijkl with Riemann symmetries from free parameters: antisymmetrise a free tensor
            Fq = symarray('q', (3, 3, 3, 3))
            q = gr.ungrid(Fq)
            Rs = oracle.arr((3, 3, 3, 3))
            for i, j, k, l in itertools.product(range(3), repeat=4):
                Rs[i, j, k, l] = (q[i, j, k, l] - q[j, i, k, l] - q[i, j, l, k] + q[j, i, l, k]
                                  + q[k, l, i, j] - q[l, k, i, j] - q[k, l, j, i] + q[l, k, j, i])
            Fp = symarray('p', (3, 3, 3))
            pp = gr.ungrid(Fp)
            Rt = oracle.arr((3, 3, 3))
            for i, j, k in itertools.product(range(3), repeat=3):
                Rt[i, j, k] = pp[i, j, k] - pp[j, i, k]
            Fs = symarray('s', (3, 3), symmetric=True)
            R = gr.ungrid(maths.populate_4Riemann(gr.grid(Rs), gr.grid(Rt), Fs))
            s0 = gr.ungrid(Fs)
            for a, b, c_, d in itertools.product(range(4), repeat=4):
                obs4.append(Ob(f'populate antisym ab {a}{b}{c_}{d}', R[a, b, c_, d], -R[b, a, c_, d], [],
                               group='populate_4Riemann: R_abcd == -R_bacd'))
                obs4.append(Ob(f'populate antisym cd {a}{b}{c_}{d}', R[a, b, c_, d], -R[a, b, d, c_], [],
                               group='populate_4Riemann: R_abcd == -R_abdc'))
                obs4.append(Ob(f'populate pair sym {a}{b}{c_}{d}', R[a, b, c_, d], R[c_, d, a, b], [],
                               group='populate_4Riemann: R_abcd == R_cdab'))
            for i, j, k, l in itertools.product(range(3), repeat=4):
                obs4.append(Ob(f'populate ssss {i}{j}{k}{l}', R[i + 1, j + 1, k + 1, l + 1], Rs[i, j, k, l], [],
                               group='populate_4Riemann reproduces the ssss block'))
            for i, j, k in itertools.product(range(3), repeat=3):
                obs4.append(Ob(f'populate ssst {i}{j}{k}', R[i + 1, j + 1, k + 1, 0], Rt[i, j, k], [],
                               group='populate_4Riemann reproduces the ssst block'))
            for i, j in itertools.product(range(3), repeat=2):
                obs4.append(Ob(f'populate stst {i}{j}', R[i + 1, 0, j + 1, 0], s0[i, j], [],
                               group='populate_4Riemann reproduces the stst block'))
        blocks.append(dict(name='populate_4Riemann', setup=None, run=None, obs=obs4, ctx=c4))
    return blocks


def build_forking(tier, report):
    from symx.sym import explore
    collected = None
    n = 0
    seen_names = {}

    def run(c):
        c.fork = True
        return build(tier, ctx_metric=c, ctx_algebra=c)
    for c, blocks in explore(run, pre=[], backend='z3old', decide_timeout=20, max_paths=32):
        n += 1
        for blk in blocks:
            for ob in blk['obs']:
                ob.pre = list(ob.pre) + list(c.pc)
                ob.name = f"{ob.name} @path{n}"
        if collected is None:
            collected = blocks
        else:
            for a, b in zip(collected, blocks):
                a['obs'] = a['obs'] + b['obs']
    report.extra['forked_paths'] = n
    report.notes.append(f'a safe_division branch is not decided by the preconditions: {n} paths explored')
    return collected


# ------------------------------------------------------------------------------ safe_division / FP
class FPTranslator(ast.NodeVisitor):
    """AST of the value-level expressions of maths.safe_division -> SMT-LIB FloatingPoint."""

    def __init__(self, eb, sb):
        self.sort = f"(_ FloatingPoint {eb} {sb})"
        self.eb, self.sb = eb, sb
        self.env = {}            # names bound by earlier assignments of the same block (c = a / b; c = f(c))

    def zero(self):
        return f"(_ +zero {self.eb} {self.sb})"

    def lit(self, x):
        from fractions import Fraction
        fr = Fraction(float(x))
        s = f"(/ {abs(fr.numerator)}.0 {fr.denominator}.0)"
        if x < 0:
            s = f"(- {s})"
        return f"((_ to_fp {self.eb} {self.sb}) RNE {s})"

    def tr(self, n):
        if isinstance(n, ast.Name):
            return self.env.get(n.id, n.id)
        # sub-expressions that do not mention the operands are constants: evaluate them with numpy
        if not any(isinstance(x, ast.Name) and x.id in ('a', 'b', 'c') for x in ast.walk(n)) and not isinstance(n, ast.Constant):
            try:
                val = eval(compile(ast.Expression(n), '<const>', 'eval'), {'np': np, 'float': float, 'abs': abs})
                return self.lit(float(val))
            except Exception:  # noqa
                pass
        if isinstance(n, ast.Constant):
            if n.value == 0:
                return self.zero()
            if isinstance(n.value, (int, float)):
                return self.lit(n.value)
            raise ValueError(n.value)
        if isinstance(n, ast.Call) and ast.unparse(n.func) in ('abs', 'np.abs', 'np.absolute'):
            return f"(fp.abs {self.tr(n.args[0])})"
        if isinstance(n, ast.Compare) and len(n.ops) == 1 and isinstance(n.ops[0], (ast.Gt, ast.Lt, ast.GtE, ast.LtE)):
            op = {ast.Gt: 'fp.gt', ast.Lt: 'fp.lt', ast.GtE: 'fp.geq', ast.LtE: 'fp.leq'}[type(n.ops[0])]
            return f"({op} {self.tr(n.left)} {self.tr(n.comparators[0])})"
        if isinstance(n, ast.BoolOp):
            op = 'and' if isinstance(n.op, ast.And) else 'or'
            return f"({op} " + ' '.join(self.tr(v) for v in n.values) + ")"
        if isinstance(n, ast.UnaryOp) and isinstance(n.op, ast.Not):
            return f"(not {self.tr(n.operand)})"
        if isinstance(n, ast.UnaryOp) and isinstance(n.op, ast.USub):
            return f"(fp.neg {self.tr(n.operand)})"
        if isinstance(n, ast.BinOp) and isinstance(n.op, ast.Div):
            return f"(fp.div RNE {self.tr(n.left)} {self.tr(n.right)})"
        if isinstance(n, ast.Compare) and len(n.ops) == 1:
            l, r = self.tr(n.left), self.tr(n.comparators[0])
            if isinstance(n.ops[0], ast.Eq):
                return f"(fp.eq {l} {r})"
            if isinstance(n.ops[0], ast.NotEq):
                return f"(not (fp.eq {l} {r}))"
        if isinstance(n, ast.IfExp):
            return f"(ite {self.tr(n.test)} {self.tr(n.body)} {self.tr(n.orelse)})"
        if isinstance(n, ast.Call):
            f = ast.unparse(n.func)
            if f == 'np.where':
                c, x, y = n.args
                return f"(ite {self.tr(c)} {self.tr(x)} {self.tr(y)})"
            if f == 'np.zeros_like':
                return self.zero()
            if f in ('np.isfinite', 'np.isnan', 'np.isinf', 'math.isfinite', 'math.isnan', 'math.isinf'):
                x = self.tr(n.args[0])
                return {'isfinite': f"(not (or (fp.isNaN {x}) (fp.isInfinite {x})))", 'isnan': f"(fp.isNaN {x})",
                        'isinf': f"(fp.isInfinite {x})"}[f.split('.')[1]]
            if f in ('np.nan_to_num',) and len(n.args) == 1 and not n.keywords:
                x = self.tr(n.args[0])
                big = self.lit(np.finfo(np.float64 if self.sb == 53 else np.float32).max)
                return (f"(ite (fp.isNaN {x}) {self.zero()} (ite (fp.isInfinite {x}) "
                        f"(ite (fp.isNegative {x}) (fp.neg {big}) {big}) {x}))")
        raise ValueError(ast.dump(n))


def safe_division_fp(report, tier):
    from aurel import maths
    src = textwrap.dedent(inspect.getsource(maths.safe_division))
    tree = ast.parse(src)
    # one chain of assignments to c per statement list (c = a / b; c = np.where(f(c), c, 0.0) is one value expression)
    chains = []
    for node in ast.walk(tree):
        for fld in ('body', 'orelse'):
            stmts = getattr(node, fld, None)
            if not isinstance(stmts, list):
                continue
            chain = [st.value for st in stmts if isinstance(st, ast.Assign) and len(st.targets) == 1
                     and ast.unparse(st.targets[0]) == 'c']
            if chain:
                chains.append(chain)
    if len(chains) != 3:
        report.harness_errors.append(f"safe_division: expected 3 value expressions, found {len(chains)}")
        return
    widths = [(11, 53)] + ([(8, 24)] if tier == 'thorough' or True else [])
    for eb, sb in widths:
        trn = FPTranslator(eb, sb)
        for k, chain in enumerate(chains):
            e = chain[-1]
            try:
                trn.env = {}
                for e_ in chain:
                    res = trn.tr(e_)
                    trn.env = {'c': res}
                trn.env = {}
            except ValueError as ex:
                report.harness_errors.append(f"safe_division expression {k} not translatable: {ex}")
                continue
            head = (f"(set-logic QF_FP)\n(declare-const a {trn.sort})\n(declare-const b {trn.sort})\n"
                    f"(define-fun res () {trn.sort} {res})\n")
            # P1: b == +-0  =>  res is +0 (not NaN / inf)
            q1 = head + (f"(assert (fp.isZero b))\n(assert (not (and (fp.isZero res) (fp.isPositive res))))\n"
                         "(check-sat)\n(get-value (a b))\n")
            # P2: b != 0 and b not NaN => res == a / b (same bit pattern, or both NaN)
            quo = "(fp.div RNE a b)"
            q2 = head + (f"(assert (not (fp.isZero b)))\n(assert (not (fp.isNaN b)))\n"
                         f"(assert (not (or (= res {quo}) (and (fp.isNaN res) (fp.isNaN {quo})))))\n"
                         "(check-sat)\n(get-value (a b))\n")
            for nm, q in (('zero-divisor gives +0', q1), ('non-zero divisor gives a/b', q2)):
                v, vals, dt = solver.run_script(q, timeout_s=120, backend='z3new', tag='fp')
                name = f"safe_division[{'; '.join(ast.unparse(x) for x in chain)}] Float{eb + sb}: {nm}"
                report.record(name, v, round(dt, 3), 'z3new', sha=str(hash(q) & 0xffffffff),
                              group='safe_division (QF_FP)', kind='fp')
                if v == 'sat':
                    # replay on the real function with the model's bit patterns
                    ab = fp_model_values(q, eb, sb)
                    rp = replay_safe_division(ab, eb + sb)
                    if rp['reproduces']:
                        report.violation(f"safe_division: {nm}", f"{name}: safe_division({rp['a']!r}, {rp['b']!r}) = {rp['result']!r}",
                                         report.write_replay(name, dict(query=q, replay=rp)))
                    else:
                        report.harness_errors.append(f"{name}: FP model {ab} does not reproduce on the real function: {rp}")
                elif v != 'unsat':
                    report.inconc(name, 'FP query not settled')
    # type-dispatch enumeration (concrete; reported as enumeration, not a solver claim)
    import warnings
    kinds = {
        'int': lambda z: 0 if z else 3, 'float': lambda z: 0.0 if z else 3.0,
        'i32': lambda z: np.array([0 if z else 3, 2], dtype=np.int32),
        'i64': lambda z: np.array([0 if z else 3, 2], dtype=np.int64),
        'f32': lambda z: np.array([0 if z else 3, 2], dtype=np.float32),
        'f64': lambda z: np.array([0 if z else 3, 2], dtype=np.float64),
        'f64_2d': lambda z: np.array([[0 if z else 3, 2], [1, 0 if z else 5]], dtype=np.float64),
        'np.float64': lambda z: np.float64(0 if z else 3),
    }
    bad = []
    n = 0
    for ka, fa in kinds.items():
        for kb, fb in kinds.items():
            a, b = fa(False), fb(True)
            n += 1
            try:
                with warnings.catch_warnings():
                    warnings.simplefilter('ignore')
                    cres = maths.safe_division(a, b)
                cres = np.asarray(cres, dtype=float)
                bz = np.broadcast_to(np.asarray(b, dtype=float), cres.shape) == 0
                ok = np.all(np.isfinite(cres)) and np.all(cres[bz] == 0)
            except Exception as ex:  # noqa
                ok = False
                cres = repr(ex)
            if not ok:
                bad.append((ka, kb, str(cres)))
    report.extra['safe_division_type_pairs_enumerated'] = n
    report.extra['safe_division_type_pairs_bad'] = bad
    for ka, kb, r in bad:
        key = f"safe_division types ({ka},{kb})"
        report.violation(key, f"safe_division({ka}, {kb} with zeros) -> {r}",
                         report.write_replay(key, dict(a=ka, b=kb, result=r)))


def fp_model_values(q, eb, sb):
    """re-run the query asking for the model as bit vectors and decode (a, b)"""
    import struct
    q2 = q.replace('(get-value (a b))', '(get-value ((fp.to_ieee_bv a) (fp.to_ieee_bv b)))') if False else q
    v, vals, dt = solver.run_script(q.replace('(check-sat)', '(check-sat)\n(eval a)\n(eval b)'), timeout_s=120, backend='z3new', tag='fpm')
    import re as _re
    import subprocess
    path = os.path.join(solver.SCRATCH, 'fpm.smt2')
    with open(path, 'w') as f:
        f.write(q.replace('(get-value (a b))', '(eval a)\n(eval b)'))
    out = subprocess.run([solver.Z3_NEW, '-smt2', path], capture_output=True, text=True, timeout=200).stdout
    res = []
    for m in _re.finditer(r'\(fp (#b[01]) (#[bx][0-9a-f]+) (#[bx][0-9a-f]+)\)|\(_ ([+-])(zero|oo) \d+ \d+\)|\(_ NaN \d+ \d+\)', out):
        if m.group(1):
            def bits(x, n):
                return bin(int(x[2:], 16 if x[1] == 'x' else 2))[2:].zfill(n)
            word = m.group(1)[2:] + bits(m.group(2), eb) + bits(m.group(3), sb - 1)
            if eb + sb == 64:
                res.append(struct.unpack('>d', int(word, 2).to_bytes(8, 'big'))[0])
            else:
                res.append(float(np.frombuffer(int(word, 2).to_bytes(4, 'big'), dtype='>f4')[0]))
        elif m.group(4):
            res.append(float(m.group(4) + ('0.0' if m.group(5) == 'zero' else 'inf')))
        else:
            res.append(float('nan'))
    return res[:2]


def replay_safe_division(ab, width):
    from aurel import maths
    import warnings
    if len(ab) != 2:
        return dict(reproduces=False, note=f'could not decode model {ab}')
    a, b = ab
    dt = np.float64 if width == 64 else np.float32
    outs = []
    with warnings.catch_warnings():
        warnings.simplefilter('ignore')
        for A, B in ((float(a), float(b)), (np.array([a], dtype=dt), np.array([b], dtype=dt)), (np.array([a], dtype=dt), float(b))):
            if width == 32 and not isinstance(A, np.ndarray):
                continue
            r = maths.safe_division(A, B)
            r = float(np.asarray(r).ravel()[0])
            with np.errstate(all='ignore'):
                want = 0.0 if b == 0 else float(np.asarray(np.array([a], dtype=dt) / np.array([b], dtype=dt))[0])
            ok = (r == want) or (math.isnan(r) and math.isnan(want))
            outs.append((type(A).__name__, r, want, ok))
    bad = [o for o in outs if not o[3]]
    return dict(a=a, b=b, result=bad[0][1] if bad else None, expected=bad[0][2] if bad else None, reproduces=bool(bad), runs=outs)


def main(report, tier, seed, workers, calibrate=False):
    report.bounds = dict(grid='1x1x1 (elementwise code)', dtype='real (QF_NRA); Float64/Float32 for safe_division',
                         outside=['conditioning / round-off growth', 'complex dtypes'])
    report.assumptions += ['lapse > 0, metric positive definite (leading minors), K symmetric',
                           'conformal identities decided with the metric value fixed to designed rational '
                           'matrices (det = 2^12, psi = 2); K, lapse, shift free',
                           'safe_division: numpy float division is IEEE-754 RNE fp.div']
    report.stubs += ['aurel.*.np -> symx.npproxy']
    from symx.sym import Inconclusive
    with FuncTrace() as ft:
        try:
            blocks = build(tier)
        except Inconclusive:
            # a data-dependent branch (safe_division) that the preconditions do not decide: explore both outcomes;
            # every path carries its path condition into the obligations built on it
            blocks = build_forking(tier, report)
    report.functions |= ft.seen
    report.extra['source_sha1'] = source_digest(FILES)
    to = 60 if tier == 'quick' else 400
    envs = [{f'g{i}{j}': F(v) for (i, j), v in gr.DESIGNED_GAMMA[w].items()} for w in (0, 1)]
    for blk in blocks:
        S = blk['setup']
        rungs = [dict(name='full', envs=[None], timeout=to),
                 dict(name='slices:metric-value-fixed', envs=envs, timeout=4 * to)]
        if blk.get('sliced'):
            rungs = rungs[1:]
        sampler = S.sampler() if S is not None else None
        if S is not None:
            vacuity(report, S.pre, name=f"{blk['name']}:pre")
        process_jet(report, blk['run'], blk['obs'], rungs, sampler=sampler, workers=workers, seed=seed,
                    verbose=bool(calibrate))
        report.extra.setdefault('branch_decisions', {})[blk['name']] = blk['ctx'].decision_queries
    safe_division_fp(report, tier)
    pick = [ob for ob in blocks[0]['obs'] if ob.name.startswith('n^mu n_mu')][0]
    witness_sat(report, pick, 'n.n == 0 (wrong)')


def replay_payload(payload):
    from .common import replay_blocks
    if 'query' in payload or 'a' in payload:
        print(payload)
        return 1
    return replay_blocks(build, payload)
