"""Solver back-ends: every query is one subprocess with a wall-clock kill
(in-process timeouts do not fire inside nlsat).  Verdicts: 'sat' | 'unsat' | 'unknown'.
Any '(error' line makes the verdict 'unknown' (inconclusive)."""
import hashlib
import os
import re
import subprocess
import tempfile
import time
from concurrent.futures import ThreadPoolExecutor
from fractions import Fraction

from . import term as tm

Z3_OLD = os.environ.get('SYMX_Z3', '/usr/bin/z3')
Z3_NEW = os.environ.get('SYMX_Z3_NEW', '/usr/local/bin/z3-new')
CVC5 = os.environ.get('SYMX_CVC5', '/usr/bin/cvc5')

SCRATCH = os.environ.get('SYMX_SCRATCH') or tempfile.mkdtemp(prefix='symx_')
os.makedirs(SCRATCH, exist_ok=True)


class Stats:
    def __init__(self):
        self.queries = 0
        self.seconds = 0.0
        self.by_verdict = {'sat': 0, 'unsat': 0, 'unknown': 0}
        self.by_backend = {}

    def add(self, backend, verdict, secs):
        self.queries += 1
        self.seconds += secs
        self.by_verdict[verdict] = self.by_verdict.get(verdict, 0) + 1
        self.by_backend[backend] = self.by_backend.get(backend, 0) + 1

    def as_dict(self):
        return {'queries': self.queries, 'solver_seconds': round(self.seconds, 3),
                'by_verdict': dict(self.by_verdict), 'by_backend': dict(self.by_backend)}


STATS = Stats()
import itertools as _it
_SEQ = _it.count()


def _parse_num(s):
    s = s.strip()
    m = re.fullmatch(r'\(-\s+(.*)\)', s)
    if m:
        return -_parse_num(m.group(1))
    m = re.fullmatch(r'\(/\s+(\S+)\s+(\S+)\)', s)
    if m:
        return _parse_num(m.group(1)) / _parse_num(m.group(2))
    s = s.rstrip('?')
    if re.fullmatch(r'-?\d+', s):
        return Fraction(int(s))
    if re.fullmatch(r'-?\d+\.\d*', s):
        return Fraction(s)
    if re.fullmatch(r'-?\d+(\.\d*)?[eE][-+]?\d+', s):
        return Fraction(s)
    raise ValueError(f"cannot parse model value {s!r}")


def _parse_values(out):
    """Parse z3 (get-value ...) output: ((name val) (name val) ...)"""
    vals = {}
    i = out.find('((')
    if i < 0:
        return vals
    text = out[i + 1:]
    # tokens at depth 1: (name value)
    depth = 0
    start = None
    for j, ch in enumerate(text):
        if ch == '(':
            if depth == 0:
                start = j
            depth += 1
        elif ch == ')':
            depth -= 1
            if depth == 0 and start is not None:
                item = text[start + 1:j].strip()
                nm, _, v = item.partition(' ')
                try:
                    vals[nm] = _parse_num(v)
                except ValueError:
                    vals[nm] = None
                start = None
            if depth < 0:
                break
    return vals


def run_script(script, timeout_s=60, backend='z3old', tag='q'):
    """Run one SMT-LIB script.  Returns (verdict, values-by-smt-name, seconds)."""
    h = hashlib.sha1(script.encode()).hexdigest()[:12]
    path = os.path.join(SCRATCH, f"{tag}_{h}_{os.getpid()}_{next(_SEQ)}.smt2")
    with open(path, 'w') as f:
        f.write(script)
    if backend == 'z3old':
        cmd = [Z3_OLD, '-smt2', path]
    elif backend == 'z3new':
        cmd = [Z3_NEW, '-smt2', path]
    elif backend == 'cvc5':
        cmd = [CVC5, '--produce-models', path]
    else:
        raise ValueError(backend)
    t0 = time.time()
    try:
        p = subprocess.run(cmd, capture_output=True, text=True, timeout=timeout_s)
        out = p.stdout + p.stderr
    except subprocess.TimeoutExpired:
        out = 'timeout'
    dt = time.time() - t0
    try:
        os.unlink(path)
    except OSError:
        pass
    first = out.strip().split('\n', 1)[0].strip() if out.strip() else ''
    if '(error' in out and not first.startswith(('sat', 'unsat')):
        verdict = 'unknown'
    elif '(error' in out and 'model is not available' not in out:
        verdict = 'unknown'
    elif first == 'sat':
        verdict = 'sat'
    elif first == 'unsat':
        verdict = 'unsat'
    else:
        verdict = 'unknown'
    vals = _parse_values(out) if verdict == 'sat' else {}
    STATS.add(backend, verdict, dt)
    return verdict, vals, dt


def check(asserts, timeout_s=60, backend='z3old', want_model=True, logic='QF_NRA', tag='q'):
    """Satisfiability of the conjunction of boolean terms (+ atom axioms).
    Returns dict(verdict, model {var name: Fraction}, seconds, sha)."""
    asserts = list(asserts)
    goal = tm.band(asserts)
    if goal is tm.FALSE:
        return dict(verdict='unsat', model={}, seconds=0.0, sha='trivial', trivial=True)
    fv = tm.free_vars([goal]) if want_model else []
    script, decls = tm.smt_script(asserts, get_values=decls_for_model(asserts) if want_model else (),
                                  logic=logic)
    verdict, vals, dt = run_script(script, timeout_s, backend, tag)
    model = {}
    if verdict == 'sat':
        for t in decls:
            nm = tm._vname(t)
            if nm in vals and vals[nm] is not None:
                model[t.val if t.op == 'v' else nm] = vals[nm]
    return dict(verdict=verdict, model=model, seconds=round(dt, 3),
                sha=hashlib.sha1(script.encode()).hexdigest()[:12], trivial=False)


def decls_for_model(asserts):
    nodes, axioms = tm.close_with_axioms([tm.band(list(asserts))])
    return [t for t in nodes if t.op == 'v' or t.op in tm.ATOM_OPS]


def check_many(jobs, workers=None, timeout_s=60, backend='z3old'):
    """jobs: list of (key, asserts).  Returns {key: result} using a thread pool (each query
    is its own subprocess)."""
    workers = workers or int(os.environ.get('SYMX_WORKERS', os.cpu_count() or 4))
    res = {}
    # build scripts sequentially (term table is not thread-safe), run in parallel
    prepared = []
    for key, asserts in jobs:
        asserts = list(asserts)
        goal = tm.band(asserts)
        if goal is tm.FALSE:
            res[key] = dict(verdict='unsat', model={}, seconds=0.0, sha='trivial', trivial=True)
            continue
        script, decls = tm.smt_script(asserts, get_values=decls_for_model(asserts))
        prepared.append((key, script, decls))

    def work(item):
        key, script, decls = item
        verdict, vals, dt = run_script(script, timeout_s, backend, 'q')
        model = {}
        if verdict == 'sat':
            for t in decls:
                nm = tm._vname(t)
                if nm in vals and vals[nm] is not None:
                    model[t.val if t.op == 'v' else nm] = vals[nm]
        return key, dict(verdict=verdict, model=model, seconds=round(dt, 3),
                         sha=hashlib.sha1(script.encode()).hexdigest()[:12], trivial=False)

    # identical scripts are solved once
    by_script = {}
    uniq = []
    for item in prepared:
        if item[1] not in by_script:
            by_script[item[1]] = item[0]
            uniq.append(item)
    done = {}
    with ThreadPoolExecutor(max_workers=workers) as ex:
        for key, r in ex.map(work, uniq):
            done[key] = r
    for key, script, decls in prepared:
        r = done[by_script[script]]
        res[key] = dict(r)
    return res
