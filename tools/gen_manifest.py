#!/usr/bin/env python3
"""Regenerates /verif/MANIFEST.json from the table below (kept valid at all times)."""
import json, os
HERE = os.path.dirname(os.path.dirname(os.path.abspath(__file__)))
PROPS = [json.loads(l) for l in open(os.path.join(HERE, 'properties.jsonl'))]
IDS = [p['id'] for p in PROPS]

CHECKS = json.load(open(os.path.join(HERE, 'tools', 'checks_table.json')))

m = dict(
    version=1,
    setup_cmd="./setup.sh",
    hooks=dict(guard="AUREL_VERIF", enable="no source hooks: checks import /repo/src unmodified and stub "
               "numpy/h5py/os at module level from the harness (AUREL_VERIF=1 is exported by ./check for "
               "symmetry only)",
               baseline_off_cmd="cd /repo && /venv/bin/python -m pytest -ra -q -p no:cacheprovider --timeout=900 "
               "--continue-on-collection-errors",
               source_commits=[], add_only=True),
    engines=[dict(name="symx", path="symx/", serves_properties=sorted(CHECKS.keys()),
                  kind_free_text="symbolic execution of the unmodified aurel functions by operator overloading "
                  "(numpy object arrays of hash-consed real terms / Taylor jets), SMT validity queries "
                  "(QF_NRA, z3 4.8.12 subprocess per query), model replay on the real float code")],
    checks=[], not_applicable=[],
    notes="All claims are bounded structurally (jet order, grid 1x1x1 continuum limit, component sets, history "
          "length ...) and unbounded in values; see DESIGN.md and each evidence file.")
for pid in IDS:
    if pid in CHECKS:
        c = CHECKS[pid]
        m['checks'].append(dict(
            property_id=pid,
            quick_cmd=f"./check {pid} --tier quick",
            thorough_cmd=f"./check {pid} --tier thorough",
            evidence_file=f"evidence/{pid}.json",
            replay_cmd_template=f"./check {pid} --replay {{path}}",
            engine="symx",
            level_claimed=dict(category="model_checking", text=c['text'], design_ref=c.get('design_ref', f"DESIGN.md section 2 {pid}")),
            level_note=c['note'],
            technique=c['technique']))
    else:
        reason = json.load(open(os.path.join(HERE, 'tools', 'na_table.json'))).get(pid, "check not built yet in this round; see DESIGN.md")
        m['not_applicable'].append(dict(property_id=pid, reason=reason))
json.dump(m, open(os.path.join(HERE, 'MANIFEST.json'), 'w'), indent=1)
print("checks:", [c['property_id'] for c in m['checks']])
