"""Pure-Python in-memory stand-ins for h5py / os / numpy used by the CrossHair contracts on the real
aurel.reading functions (C12, C13, C02 argument contracts).  Content of datasets is an opaque tag."""


class FakeDataset:
    def __init__(self, data, attrs=None):
        self.data = data
        self.attrs = attrs or {}


class FakeFile:
    def __init__(self, fs, name, mode):
        self.fs, self.name, self.mode = fs, name, mode
        if mode == 'a' and name not in fs.files:
            fs.files[name] = {}
        if mode == 'r' and name not in fs.files:
            raise OSError(f"no such file {name}")
        self.d = fs.files[name]

    def __enter__(self):
        return self

    def __exit__(self, *a):
        return False

    def keys(self):
        return list(self.d.keys())

    def __contains__(self, k):
        return k in self.d

    def __getitem__(self, k):
        return self.d[k].data

    def __delitem__(self, k):
        del self.d[k]

    def create_dataset(self, name, data=None):
        if data is None:
            raise TypeError("One of data, shape or dtype must be specified")
        if name in self.d:
            raise ValueError("Unable to create dataset (name already exists)")
        self.d[name] = FakeDataset(data)


class FakeFS:
    def __init__(self):
        self.files = {}
        self.dirs = set()


class FakeH5:
    def __init__(self, fs):
        self.fs = fs

    def File(self, name, mode='r'):
        return FakeFile(self.fs, name, mode)


class FakePath:
    def __init__(self, fs):
        self.fs = fs
        self.sep = '/'

    def exists(self, p):
        return p in self.fs.files or p in self.fs.dirs or p.rstrip('/') in self.fs.dirs

    def join(self, *a):
        return '/'.join(x.rstrip('/') for x in a)

    def basename(self, p):
        return p.rsplit('/', 1)[-1]

    def dirname(self, p):
        return p.rsplit('/', 1)[0]


class FakeOS:
    def __init__(self, fs):
        self.fs = fs
        self.path = FakePath(fs)
        self.sep = '/'

    def makedirs(self, p, exist_ok=False):
        self.fs.dirs.add(p.rstrip('/'))


class Arr(list):
    """list with the few ndarray operations reading.py applies to iteration arrays"""

    def __sub__(self, o):
        return Arr([x - o for x in self])

    def __rsub__(self, o):
        return Arr([o - x for x in self])

    def __abs__(self):
        return Arr([abs(x) for x in self])


class FakeNP:
    """the subset of numpy that read_aurel_data / save_data / the read cache touch"""
    integer = int

    @staticmethod
    def array(x):
        return Arr(x) if isinstance(x, list) else x      # dataset tags (tuples) are opaque

    @staticmethod
    def sort(x):
        return Arr(sorted(x))

    @staticmethod
    def abs(x):
        return Arr([abs(v) for v in x])

    @staticmethod
    def argmin(x):
        best, bi = None, 0
        for i, v in enumerate(x):
            if best is None or v < best:
                best, bi = v, i
        return bi

    @staticmethod
    def max(x):
        return max(x)

    @staticmethod
    def sum(x):
        return sum(x)

    @staticmethod
    def arange(n):
        return list(range(n))
