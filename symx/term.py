"""Hash-consed term DAG over the reals (+ booleans) with light normalisation,
SMT-LIB2 printing and exact/float evaluation.

Real-valued node kinds (T.op):
  'c'    constant, T.val is a Fraction
  'v'    free variable, T.val is its name
  'sum'  c0 + sum_i coef_i * term_i      T.val=(c0, ((tid, coef),...)), T.args = terms
  'prod' prod_i term_i ** e_i (e_i >= 1) T.val=((tid, e),...), T.args = terms
  'ite'  args = (cond, a, b)
  atoms (uninterpreted value + side axiom, see axioms_of):
  'recip' args=(b,)     guarded:  b = 0  or  r*b = 1
  'sqrt'  args=(x,)     guarded:  x < 0  or  (s >= 0 and s*s = x)
  'root'  args=(x,), val=q        x <= 0 or (r > 0 and r**q = x)
  'log'   args=(x,)     no axiom (only rewrite exp(k*log r) = r**k is used)
  'exp'   args=(x,)     e > 0
  'fn'    args=(...), val=name    uninterpreted function application (congruence
                                   by hash-consing on argument identity)
Boolean node kinds:
  'b'   constant (val True/False)
  'cmp' args=(d,), val in {'<','<=','=', '!='}   meaning  d <op> 0
  'and','or' args=(...)   'not' args=(x,)
"""
from fractions import Fraction
import itertools
import math

_table = {}
_counter = itertools.count()


class T:
    __slots__ = ('op', 'args', 'val', 'id', 'sort')

    def __init__(self, op, args, val, sort):
        self.op = op
        self.args = args
        self.val = val
        self.sort = sort
        self.id = next(_counter)

    def __repr__(self):
        return f"T#{self.id}<{self.op}>"

    def __hash__(self):
        return self.id

    def __eq__(self, other):
        return self is other


def _mk(op, args=(), val=None, sort='R'):
    key = (op, tuple(a.id for a in args), val)
    t = _table.get(key)
    if t is None:
        t = T(op, tuple(args), val, sort)
        _table[key] = t
    return t


def reset():
    """Forget all terms (used between independent harnesses to bound memory)."""
    _table.clear()


MAXDEN = 4096


def rationalise(x):
    """Literal policy (DESIGN 1.1): a float that is the nearest double of p/q, q <= 4096,
    denotes p/q; any other float denotes its exact binary value."""
    if isinstance(x, Fraction):
        return x
    if isinstance(x, bool):
        return Fraction(int(x))
    if isinstance(x, int):
        return Fraction(x)
    try:
        import numpy as _np
        if isinstance(x, _np.integer):
            return Fraction(int(x))
        if isinstance(x, _np.floating):
            x = float(x)
    except ImportError:  # pragma: no cover
        pass
    if isinstance(x, float):
        if math.isnan(x) or math.isinf(x):
            raise ValueError("non-finite literal enters a symbolic expression")
        fr = Fraction(x)
        cand = fr.limit_denominator(MAXDEN)
        if float(cand) == x:
            return cand
        return fr
    raise TypeError(f"cannot rationalise {type(x)}")


def const(x):
    return _mk('c', (), rationalise(x))


ZERO = const(0)
ONE = const(1)


def var(name):
    return _mk('v', (), name)


def is_const(t):
    return t.op == 'c'


# ------------------------------------------------------------------ sums / products
def _as_lin(t):
    """term -> (c0, {term: coef})"""
    if t.op == 'c':
        return t.val, {}
    if t.op == 'sum':
        c0, items = t.val
        return c0, {a: c for a, (_, c) in zip(t.args, items)}
    return Fraction(0), {t: Fraction(1)}


def _from_lin(c0, d):
    items = [(a, c) for a, c in d.items() if c != 0]
    if not items:
        return _mk('c', (), c0)
    if c0 == 0 and len(items) == 1 and items[0][1] == 1:
        return items[0][0]
    items.sort(key=lambda ac: ac[0].id)
    return _mk('sum', tuple(a for a, _ in items),
               (c0, tuple((a.id, c) for a, c in items)))


def add(a, b):
    if a.op == 'c' and a.val == 0:
        return b
    if b.op == 'c' and b.val == 0:
        return a
    ca, da = _as_lin(a)
    cb, db = _as_lin(b)
    d = dict(da)
    for k, c in db.items():
        d[k] = d.get(k, 0) + c
    return _from_lin(ca + cb, d)


def addn(ts):
    c0 = Fraction(0)
    d = {}
    for t in ts:
        c, dd = _as_lin(t)
        c0 += c
        for k, v in dd.items():
            d[k] = d.get(k, 0) + v
    return _from_lin(c0, d)


def scale(t, c):
    c = rationalise(c)
    if c == 0:
        return ZERO
    if c == 1:
        return t
    c0, d = _as_lin(t)
    return _from_lin(c0 * c, {k: v * c for k, v in d.items()})


def neg(t):
    return scale(t, -1)


def sub(a, b):
    return add(a, neg(b))


def _as_mono(t):
    """term -> (coef, {factor: exp}) ; sums that are not a scaled monomial are factors."""
    if t.op == 'c':
        return t.val, {}
    if t.op == 'prod':
        return Fraction(1), {a: e for a, (_, e) in zip(t.args, t.val)}
    if t.op == 'sum':
        c0, items = t.val
        if c0 == 0 and len(items) == 1:
            inner = t.args[0]
            c, d = _as_mono(inner)
            return c * items[0][1], d
    return Fraction(1), {t: 1}


def _cancel_exp(d):
    """E * recip(E) = 1 for exp atoms E (always > 0, so the reciprocal is unguarded): cancel in a factor dict"""
    for f in [k for k in d if k.op == 'recip' and k.args[0].op == 'exp']:
        g = f.args[0]
        if d.get(g, 0) > 0 and d.get(f, 0) > 0:
            m = min(d[f], d[g])
            d[f] -= m
            d[g] -= m
    return d


def _from_mono(c, d):
    if c == 0:
        return ZERO
    d = _cancel_exp(dict(d))
    items = [(a, e) for a, e in d.items() if e != 0]
    if not items:
        return _mk('c', (), c)
    if len(items) == 1 and items[0][1] == 1:
        base = items[0][0]
    else:
        items.sort(key=lambda ae: ae[0].id)
        base = _mk('prod', tuple(a for a, _ in items),
                   tuple((a.id, e) for a, e in items))
    return scale(base, c)


def mul(a, b):
    if a.op == 'c':
        return scale(b, a.val)
    if b.op == 'c':
        return scale(a, b.val)
    ca, da = _as_mono(a)
    cb, db = _as_mono(b)
    d = dict(da)
    for k, e in db.items():
        d[k] = d.get(k, 0) + e
    return _from_mono(ca * cb, d)


def ipow(a, n):
    """a ** n for integer n (negative through the reciprocal atom)."""
    n = int(n)
    if n == 0:
        return ONE
    if n < 0:
        return ipow(recip(a), -n)
    if a.op == 'c':
        return _mk('c', (), a.val ** n)
    c, d = _as_mono(a)
    return _from_mono(c ** n, {k: e * n for k, e in d.items()})


# ------------------------------------------------------------------ canonical polynomial form
EXPAND_CAP = 4000


class _TooBig(Exception):
    pass


def _poly(t, memo):
    """t -> {monomial: coef}, monomial = tuple(sorted((leaf_id, exp))) ; leaves are variables,
    atoms and ite nodes.  Raises _TooBig beyond EXPAND_CAP monomials."""
    r = memo.get(t.id)
    if r is not None:
        return r
    if t.op == 'c':
        r = {(): t.val} if t.val != 0 else {}
    elif t.op == 'sum':
        c0, items = t.val
        r = {(): c0} if c0 != 0 else {}
        for a, (_, c) in zip(t.args, items):
            for m, v in _poly(a, memo).items():
                nv = r.get(m, 0) + v * c
                if nv == 0:
                    r.pop(m, None)
                else:
                    r[m] = nv
            if len(r) > EXPAND_CAP:
                raise _TooBig()
    elif t.op == 'prod':
        r = {(): Fraction(1)}
        for a, (_, e) in zip(t.args, t.val):
            pa = _poly(a, memo)
            for _ in range(e):
                nr = {}
                for m1, v1 in r.items():
                    for m2, v2 in pa.items():
                        d = dict(m1)
                        for lid, ex in m2:
                            d[lid] = d.get(lid, 0) + ex
                        for lid in list(d):
                            lf = _LEAF[lid]
                            if lf.op == 'recip' and lf.args[0].op == 'exp' and d.get(lf.args[0].id, 0) > 0 and d[lid] > 0:
                                k_ = min(d[lid], d[lf.args[0].id])
                                d[lid] -= k_
                                d[lf.args[0].id] -= k_
                        m = tuple(sorted((a_, e_) for a_, e_ in d.items() if e_))
                        nv = nr.get(m, 0) + v1 * v2
                        if nv == 0:
                            nr.pop(m, None)
                        else:
                            nr[m] = nv
                    if len(nr) > EXPAND_CAP:
                        raise _TooBig()
                r = nr
    else:
        _LEAF[t.id] = t
        r = {((t.id, 1),): Fraction(1)}
    memo[t.id] = r
    return r


_LEAF = {}


def canon(t):
    """Rebuild t from its expanded polynomial normal form (equal polynomials -> same node).
    Falls back to t itself when the expansion is too large."""
    if t.op in ('c', 'v') or t.op in ATOM_OPS_EARLY:
        return t
    try:
        p = _poly(t, {})
    except _TooBig:
        return t
    d = {}
    c0 = Fraction(0)
    for m, v in p.items():
        if not m:
            c0 = v
            continue
        items = tuple((_LEAF[lid], e) for lid, e in m)
        if len(items) == 1 and items[0][1] == 1:
            node = items[0][0]
        else:
            node = _mk('prod', tuple(a for a, _ in items), tuple((a.id, e) for a, e in items))
        d[node] = v
    return _from_lin(c0, d)


ATOM_OPS_EARLY = ('recip', 'sqrt', 'root', 'log', 'exp', 'fn')


# ------------------------------------------------------------------ atoms
def recip(b):
    b = canon(b)
    if b.op == 'c':
        if b.val != 0:
            return _mk('c', (), 1 / b.val)
        return _mk('recip', (b,))          # unconstrained value (1/0)
    c, d = _as_mono(b)
    if len(d) == 1 and c == 1:
        (f, e), = d.items()
        if f.op == 'recip' and f.args[0].op != 'c':
            # 1/(1/x)^e : keep as atom of atom; do not simplify (x may be 0)
            pass
        return ipow(_mk('recip', (f,)), e) if e != 1 else _mk('recip', (f,))
    # distribute over the monomial: 1/(c * prod f^e) = (1/c) prod recip(f)^e
    out = _mk('c', (), 1 / c)
    for f, e in d.items():
        out = mul(out, ipow(_mk('recip', (f,)), e))
    return out


def div(a, b):
    return mul(a, recip(b))


def _isqrt_frac(q):
    if q < 0:
        return None
    n, d = q.numerator, q.denominator
    rn, rd = math.isqrt(n), math.isqrt(d)
    if rn * rn == n and rd * rd == d:
        return Fraction(rn, rd)
    return None


def sqrt(x):
    x = canon(x)
    if x.op == 'c':
        r = _isqrt_frac(x.val)
        if r is not None:
            return _mk('c', (), r)
    return _mk('sqrt', (x,))


def root(x, q):
    """positive real q-th root of x (x > 0)."""
    q = int(q)
    x = canon(x)
    if q == 1:
        return x
    if q == 2:
        return sqrt(x)
    if x.op == 'c' and x.val > 0:
        n, d = x.val.numerator, x.val.denominator
        rn, rd = round(n ** (1.0 / q)), round(d ** (1.0 / q))
        if rn ** q == n and rd ** q == d:
            return _mk('c', (), Fraction(rn, rd))
    return _mk('root', (x,), q)


def rpow(x, p):
    """x ** p for rational p (x > 0 when p is not an integer)."""
    p = rationalise(p)
    if p.denominator == 1:
        return ipow(x, p.numerator)
    return ipow(root(x, p.denominator), p.numerator)


def log(x):
    x = canon(x)
    if x.op == 'c' and x.val == 1:
        return ZERO
    return _mk('log', (x,))


def exp(x):
    if x.op == 'c' and x.val == 0:
        return ONE
    # exp(k * log r) = r**k   (integer k)
    c0, d = _as_lin(x)
    if c0 == 0 and len(d) == 1:
        (t, k), = d.items()
        if t.op == 'log' and k.denominator == 1:
            return ipow(t.args[0], k.numerator)
    # exp(c0 + sum k_i m_i) = exp(c0) * prod exp(m_i)**k_i  for integer k_i (m_i: the monomials of the canonical form)
    x = canon(x)
    c0, d = _as_lin(x)
    if d and all(k.denominator == 1 for k in d.values()) and (len(d) > 1 or c0 != 0 or next(iter(d.values())) != 1):
        r = ONE if c0 == 0 else _mk('exp', (_mk('c', (), c0),))
        for t, k in sorted(d.items(), key=lambda tk: tk[0].id):
            base = t.args[0] if t.op == 'log' else _mk('exp', (t,))
            r = mul(r, ipow(base, k.numerator))
        return r
    return _mk('exp', (x,))


def fn(name, args):
    return _mk('fn', tuple(args), name)


# ------------------------------------------------------------------ booleans
TRUE = _mk('b', (), True, 'B')
FALSE = _mk('b', (), False, 'B')


def cmp0(d, op):
    """d <op> 0"""
    if d.op == 'c':
        v = d.val
        r = {'<': v < 0, '<=': v <= 0, '=': v == 0, '!=': v != 0}[op]
        return TRUE if r else FALSE
    return _mk('cmp', (d,), op, 'B')


def lt(a, b):
    return cmp0(sub(a, b), '<')


def le(a, b):
    return cmp0(sub(a, b), '<=')


def eq(a, b):
    return cmp0(sub(a, b), '=')


def ne(a, b):
    return cmp0(sub(a, b), '!=')


def bnot(x):
    if x is TRUE:
        return FALSE
    if x is FALSE:
        return TRUE
    if x.op == 'not':
        return x.args[0]
    if x.op == 'cmp':
        d, = x.args
        if x.val == '=':
            return cmp0(d, '!=')
        if x.val == '!=':
            return cmp0(d, '=')
        if x.val == '<':      # not (d<0)  ==  -d <= 0
            return cmp0(neg(d), '<=')
        if x.val == '<=':
            return cmp0(neg(d), '<')
    return _mk('not', (x,), None, 'B')


def band(xs):
    xs = [x for x in xs if x is not TRUE]
    if any(x is FALSE for x in xs):
        return FALSE
    if not xs:
        return TRUE
    if len(xs) == 1:
        return xs[0]
    return _mk('and', tuple(xs), None, 'B')


def bor(xs):
    xs = [x for x in xs if x is not FALSE]
    if any(x is TRUE for x in xs):
        return TRUE
    if not xs:
        return FALSE
    if len(xs) == 1:
        return xs[0]
    return _mk('or', tuple(xs), None, 'B')


def ite(c, a, b):
    if c is TRUE:
        return a
    if c is FALSE:
        return b
    if a is b:
        return a
    return _mk('ite', (c, a, b))


def tabs(x):
    if x.op == 'c':
        return _mk('c', (), abs(x.val))
    return ite(cmp0(x, '<'), neg(x), x)


# ------------------------------------------------------------------ traversal
def reachable(roots):
    """All nodes reachable from roots in topological (children first) order."""
    seen = set()
    order = []
    stack = [(r, False) for r in roots]
    while stack:
        t, done = stack.pop()
        if done:
            order.append(t)
            continue
        if t.id in seen:
            continue
        seen.add(t.id)
        stack.append((t, True))
        for a in t.args:
            if a.id not in seen:
                stack.append((a, False))
    return order


ATOM_OPS = ('recip', 'sqrt', 'root', 'log', 'exp', 'fn')


def axioms_of(nodes):
    """Side axioms of every atom among nodes (list of boolean terms).  Closed under
    reachability by the caller (axioms only mention the atom and its argument)."""
    out = []
    for t in nodes:
        if t.op == 'recip':
            b, = t.args
            if b.op == 'c':
                continue
            if b.op == 'exp':
                # mul() cancels recip(E) * E for exp atoms, so the defining equation is built as a raw product node
                pr = _mk('prod', tuple(sorted((t, b), key=lambda n_: n_.id)), tuple((n_.id, 1) for n_ in sorted((t, b), key=lambda n_: n_.id)))
                out.append(cmp0(sub(pr, ONE), '='))
                continue
            out.append(bor([cmp0(b, '='), cmp0(sub(mul(t, b), ONE), '=')]))
        elif t.op == 'sqrt':
            x, = t.args
            out.append(bor([cmp0(x, '<'),
                            band([cmp0(neg(t), '<='),
                                  cmp0(sub(mul(t, t), x), '=')])]))
        elif t.op == 'root':
            x, = t.args
            out.append(bor([cmp0(x, '<='),
                            band([cmp0(neg(t), '<'),
                                  cmp0(sub(ipow(t, t.val), x), '=')])]))
        elif t.op == 'exp':
            out.append(cmp0(neg(t), '<'))
            u, = t.args
            if u.op == 'c':
                # rational enclosure of exp(constant): math.exp is within 1 ulp; widened to 1e-12 relative
                v = Fraction(math.exp(float(u.val)))
                out.append(cmp0(sub(_mk('c', (), v * (1 - Fraction(1, 10 ** 12))), t), '<'))
                out.append(cmp0(sub(t, _mk('c', (), v * (1 + Fraction(1, 10 ** 12)))), '<'))
            if u.op != 'c':
                # exp(u) >= 1 + u (all real u);  u < 0 -> exp(u) < 1
                out.append(cmp0(sub(add(ONE, u), t), '<='))
                out.append(bor([cmp0(neg(u), '<='), cmp0(sub(t, ONE), '<')]))
        elif t.op == 'fn' and t.val in ('sin', 'cos') and len(t.args) == 1:
            sn, cs = fn('sin', t.args), fn('cos', t.args)
            out.append(cmp0(sub(add(mul(sn, sn), mul(cs, cs)), ONE), '='))
    return out


def close_with_axioms(roots):
    """Return (nodes, axioms): all nodes reachable from roots and from the axioms of the
    atoms they contain (fixed point; axioms introduce only products of existing nodes)."""
    roots = list(roots)
    axioms = []
    seen_atoms = set()
    while True:
        nodes = reachable(roots + axioms)
        new = [t for t in nodes if t.op in ATOM_OPS and t.id not in seen_atoms]
        if not new:
            return nodes, axioms
        for t in new:
            seen_atoms.add(t.id)
        axioms.extend(axioms_of(new))


# ------------------------------------------------------------------ SMT printing
def _q(fr):
    n, d = fr.numerator, fr.denominator
    s = str(abs(n)) + ".0" if d == 1 else f"(/ {abs(n)}.0 {d}.0)"
    return f"(- {s})" if n < 0 else s


def _name(t):
    return f"t{t.id}"


def _vname(t):
    if t.op == 'v':
        return "v_" + t.val
    return f"a{t.id}_{t.op}"


def smt_script(asserts, get_values=(), logic='QF_NRA', timeout_ms=None, extra_opts=()):
    """Build an SMT-LIB2 script asserting every boolean term in `asserts` together with the
    side axioms of all atoms involved.  Shared nodes are bound by nested lets inside one
    assertion so that the solver sees a DAG."""
    goal = band(list(asserts))
    nodes, axioms = close_with_axioms([goal])
    goal_all = band([goal] + axioms)
    nodes = reachable([goal_all])
    lines = []
    if logic:
        lines.append(f"(set-logic {logic})")
    lines.append("(set-option :pp.decimal true)")
    lines.append("(set-option :pp.decimal_precision 30)")
    for o in extra_opts:
        lines.append(o)
    decls = []
    uf = {}
    for t in nodes:
        if t.op == 'v' or t.op in ('recip', 'sqrt', 'root', 'log', 'exp'):
            decls.append(t)
            lines.append(f"(declare-const {_vname(t)} Real)")
        elif t.op == 'fn':
            decls.append(t)
            lines.append(f"(declare-const {_vname(t)} Real)")
    # usage counts to inline single-use nodes
    uses = {}
    for t in nodes:
        for a in t.args:
            uses[a.id] = uses.get(a.id, 0) + 1
    expr = {}

    def ref(t):
        return expr[t.id]

    binds = []
    for t in nodes:
        if t.op == 'c':
            s = _q(t.val)
        elif t.op == 'b':
            s = 'true' if t.val else 'false'
        elif t.op == 'v' or t.op in ATOM_OPS:
            s = _vname(t)
        elif t.op == 'sum':
            c0, items = t.val
            parts = []
            if c0 != 0:
                parts.append(_q(c0))
            for a, (_, c) in zip(t.args, items):
                if c == 1:
                    parts.append(ref(a))
                elif c == -1:
                    parts.append(f"(- {ref(a)})")
                else:
                    parts.append(f"(* {_q(c)} {ref(a)})")
            s = parts[0] if len(parts) == 1 else "(+ " + " ".join(parts) + ")"
        elif t.op == 'prod':
            parts = []
            for a, (_, e) in zip(t.args, t.val):
                parts.extend([ref(a)] * e)
            s = "(* " + " ".join(parts) + ")"
        elif t.op == 'ite':
            s = f"(ite {ref(t.args[0])} {ref(t.args[1])} {ref(t.args[2])})"
        elif t.op == 'cmp':
            d = ref(t.args[0])
            if t.val == '!=':
                s = f"(not (= {d} 0.0))"
            else:
                s = f"({t.val} {d} 0.0)"
        elif t.op in ('and', 'or'):
            s = f"({t.op} " + " ".join(ref(a) for a in t.args) + ")"
        elif t.op == 'not':
            s = f"(not {ref(t.args[0])})"
        else:  # pragma: no cover
            raise ValueError(t.op)
        if (t.op in ('sum', 'prod', 'ite', 'cmp', 'and', 'or', 'not')
                and uses.get(t.id, 0) > 1):
            binds.append((_name(t), s))
            expr[t.id] = _name(t)
        else:
            expr[t.id] = s
    body = ref(goal_all)
    for nm, s in reversed(binds):
        body = f"(let (({nm} {s})) {body})"
    lines.append(f"(assert {body})")
    lines.append("(check-sat)")
    gv = [t for t in get_values if t.op == 'v' or t.op in ATOM_OPS]
    # only variables that were declared can be asked for
    declared = {t.id for t in decls}
    gv = [t for t in gv if t.id in declared]
    if gv:
        lines.append("(get-value (" + " ".join(_vname(t) for t in gv) + "))")
    return "\n".join(lines) + "\n", decls


def free_vars(roots):
    return [t for t in reachable(list(roots)) if t.op == 'v']


# ------------------------------------------------------------------ evaluation
# numeric meaning of interpreted fn atoms (used by the random prescreen when the model gives no value for the atom)
FN_EVAL = {'sin': math.sin, 'cos': math.cos, 'arccos': math.acos}


def evaluate(roots, env, exact=True):
    """Evaluate terms at env: {var name: Fraction|float}.  Atoms are computed from their
    arguments (1/0 -> 0 by convention, documented: matches safe_division's selection).
    exact=True uses Fractions where possible and floats after the first irrational atom."""
    vals = {}
    for t in reachable(list(roots)):
        op = t.op
        if op == 'c':
            v = t.val if exact else float(t.val)
        elif op == 'v':
            v = env[t.val]
            if not exact:
                v = float(v)
        elif op == 'sum':
            c0, items = t.val
            v = c0 if exact else float(c0)
            for a, (_, c) in zip(t.args, items):
                v = v + (c if exact or not isinstance(vals[a.id], float) else float(c)) * vals[a.id]
        elif op == 'prod':
            v = 1
            for a, (_, e) in zip(t.args, t.val):
                v = v * vals[a.id] ** e
        elif op == 'ite':
            v = vals[t.args[1].id] if vals[t.args[0].id] else vals[t.args[2].id]
        elif op == 'recip':
            b = vals[t.args[0].id]
            v = 0 if b == 0 else 1 / b
        elif op == 'sqrt':
            x = vals[t.args[0].id]
            r = _isqrt_frac(x) if isinstance(x, Fraction) else None
            v = r if r is not None else math.sqrt(float(x)) if x >= 0 else float('nan')
        elif op == 'root':
            x = vals[t.args[0].id]
            v = float(x) ** (1.0 / t.val) if x > 0 else float('nan')
        elif op == 'log':
            x = vals[t.args[0].id]
            v = math.log(float(x)) if x > 0 else float('nan')
        elif op == 'exp':
            v = math.exp(float(vals[t.args[0].id]))
        elif op == 'fn':
            if _vname(t) in env:
                v = env[_vname(t)]
            else:
                v = FN_EVAL[t.val](*[float(vals[a.id]) for a in t.args])
        elif op == 'b':
            v = t.val
        elif op == 'cmp':
            d = vals[t.args[0].id]
            v = {'<': d < 0, '<=': d <= 0, '=': d == 0, '!=': d != 0}[t.val]
        elif op == 'and':
            v = all(vals[a.id] for a in t.args)
        elif op == 'or':
            v = any(vals[a.id] for a in t.args)
        elif op == 'not':
            v = not vals[t.args[0].id]
        else:  # pragma: no cover
            raise ValueError(op)
        vals[t.id] = v
    return [vals[r.id] for r in roots]


def size(roots):
    return len(reachable(list(roots)))


# ------------------------------------------------------------------ substitution (slices)
def substitute(roots, env, nodes=None):
    """Replace variables by constants (env: {name: Fraction}) - and, optionally, whole nodes by terms
    (nodes: {node id: term}; the caller justifies each replacement by a proved equality) - and rebuild
    through the normalising constructors.  Returns the list of new roots."""
    memo = {}
    cenv = {k: const(v) for k, v in env.items()}
    nodes = nodes or {}
    for t in reachable(list(roots)):
        op = t.op
        if t.id in nodes:
            memo[t.id] = nodes[t.id]
            continue
        if op == 'v':
            n = cenv.get(t.val, t)
        elif op in ('c', 'b'):
            n = t
        elif op == 'sum':
            c0, items = t.val
            n = addn([const(c0)] + [scale(memo[a.id], c) for a, (_, c) in zip(t.args, items)])
        elif op == 'prod':
            n = ONE
            for a, (_, e) in zip(t.args, t.val):
                n = mul(n, ipow(memo[a.id], e))
        elif op == 'ite':
            n = ite(memo[t.args[0].id], memo[t.args[1].id], memo[t.args[2].id])
        elif op == 'recip':
            n = recip(memo[t.args[0].id])
        elif op == 'sqrt':
            n = sqrt(memo[t.args[0].id])
        elif op == 'root':
            n = root(memo[t.args[0].id], t.val)
        elif op == 'log':
            n = log(memo[t.args[0].id])
        elif op == 'exp':
            n = exp(memo[t.args[0].id])
        elif op == 'fn':
            n = fn(t.val, [memo[a.id] for a in t.args])
        elif op == 'cmp':
            n = cmp0(memo[t.args[0].id], t.val)
        elif op == 'and':
            n = band([memo[a.id] for a in t.args])
        elif op == 'or':
            n = bor([memo[a.id] for a in t.args])
        elif op == 'not':
            n = bnot(memo[t.args[0].id])
        else:  # pragma: no cover
            raise ValueError(op)
        memo[t.id] = n
    return [memo[r.id] for r in roots]
