"""C01 - the lazy cache is transparent: a value never depends on the request history.

Inductive step (DESIGN C01): for every body that looks at the cache (`'X' in self.data` guards,
extracted from core.py's AST on every run) and every assignment of presence/absence of the guard
keys - present keys holding their canonical (fresh-instance) value - the returned value equals the
fresh-instance value for all inputs.  Plus explicit eviction histories through the real
__getitem__/cleanup_cache with the most aggressive cache settings."""
import ast
import itertools
import os

import numpy as np

from symx import term as tm, oracle, solver
from symx.sym import Ctx, use_ctx, sym, symarray, SymReal, SymComplex, Inconclusive
from symx.jet import Jet
from symx.npproxy import patched
from symx.fd import UninterpretedFD
from symx.harness import Ob, FuncTrace, source_digest, REPO
from . import gr
from .common import process_jet, vacuity

PID = 'C01'
FILES = ['src/aurel/core.py', 'src/aurel/utils/memory.py']


# ------------------------------------------------------------------------- guards from the AST
def extract_guards():
    src = open(os.path.join(REPO, 'src', 'aurel', 'core.py')).read()
    tree = ast.parse(src)
    cls = [n for n in tree.body if isinstance(n, ast.ClassDef) and n.name == 'AurelCore'][0]
    guards, nargs, calls = {}, {}, {}
    for fn in cls.body:
        if not isinstance(fn, ast.FunctionDef):
            continue
        nargs[fn.name] = len(fn.args.args)
        g = []
        called = set()
        for n in ast.walk(fn):
            if (isinstance(n, ast.Compare) and len(n.ops) == 1 and isinstance(n.ops[0], (ast.In, ast.NotIn))
                    and ast.unparse(n.comparators[0]) in ('self.data', 'self.data.keys()')
                    and isinstance(n.left, ast.Constant)):
                g.append(n.left.value)
            # any(k in self.data for k in ('a', 'b', ...)) / all(...)
            if isinstance(n, (ast.GeneratorExp, ast.ListComp)) and isinstance(n.elt, ast.Compare):
                cmpn = n.elt
                if (len(cmpn.ops) == 1 and isinstance(cmpn.ops[0], (ast.In, ast.NotIn))
                        and ast.unparse(cmpn.comparators[0]) in ('self.data', 'self.data.keys()')
                        and isinstance(cmpn.left, ast.Name)):
                    for gen in n.generators:
                        if (isinstance(gen.target, ast.Name) and gen.target.id == cmpn.left.id
                                and isinstance(gen.iter, (ast.Tuple, ast.List))):
                            g += [e.value for e in gen.iter.elts if isinstance(e, ast.Constant)]
            if isinstance(n, ast.Call) and isinstance(n.func, ast.Attribute) and ast.unparse(n.func.value) == 'self':
                called.add(n.func.attr)
        if g:
            guards[fn.name] = sorted(set(g))
        calls[fn.name] = called
    # helpers with arguments pass their guards on to the bodies that call them
    helpers = {k: v for k, v in guards.items() if nargs[k] > 1}
    out = {k: list(v) for k, v in guards.items() if nargs[k] == 1}
    for fn, called in calls.items():
        if nargs.get(fn) != 1 or fn in ('__init__',):
            continue
        for h, hg in helpers.items():
            if h in called:
                out[fn] = sorted(set(out.get(fn, [])) | set(hg))
    return out, helpers


def alias_pairs():
    """(key, function) pairs where the function binds self["key"] (or a slice/view of it) to a local name, or
    reads one of the large curvature tensors: candidates for in-place corruption of a cached entry."""
    src = open(os.path.join(REPO, 'src', 'aurel', 'core.py')).read()
    tree = ast.parse(src)
    cls = [n for n in tree.body if isinstance(n, ast.ClassDef) and n.name == 'AurelCore'][0]
    big = {'st_Riemann_down4', 's_Riemann_down3', 'gdown4', 'gup4', 'st_Ricci_down4', 'gammaup3'}
    pairs = []
    for fn in cls.body:
        if not isinstance(fn, ast.FunctionDef) or len(fn.args.args) != 1:
            continue

        def key_of(node):
            while isinstance(node, ast.Subscript):
                if (isinstance(node.value, ast.Name) and node.value.id == 'self' and isinstance(node.slice, ast.Constant)
                        and isinstance(node.slice.value, str)):
                    return node.slice.value
                node = node.value
            return None
        for n in ast.walk(fn):
            if isinstance(n, ast.Assign) and len(n.targets) == 1 and isinstance(n.targets[0], ast.Name):
                k = key_of(n.value)
                if k:
                    pairs.append((k, fn.name))
            if isinstance(n, ast.Subscript):
                k = key_of(n)
                if k in big and k != fn.name:
                    pairs.append((k, fn.name))
    return sorted(set(pairs))


# ------------------------------------------------------------------------- input patterns
def pattern_inputs(name):
    al = symarray('al', ())
    dta = symarray('dta', ())
    be = symarray('b', (3,))
    dtb = symarray('dtb', (3,))
    ga = symarray('g', (3, 3), symmetric=True)
    K = symarray('K', (3, 3), symmetric=True)
    gv = [[ga[i, j, 0, 0, 0].t for j in range(3)] for i in range(3)]
    pre = oracle.spd_preconditions(gv) + [tm.lt(tm.ZERO, al[0, 0, 0].t)]
    d = {}
    comp = ['xx', 'xy', 'xz', 'yy', 'yz', 'zz']
    idx = [(0, 0), (0, 1), (0, 2), (1, 1), (1, 2), (2, 2)]
    if name.startswith('tensor'):
        d.update(alpha=al, dtalpha=dta, betaup3=be, dtbetaup3=dtb, gammadown3=ga, Kdown3=K,
                 Tdown4=symarray('T', (4, 4), symmetric=True))
    else:
        d.update(alpha=al, dtalpha=dta)
        for c, (i, j) in zip(comp, idx):
            d['g' + c] = ga[i, j]
            d['k' + c] = K[i, j]
        for i, c in enumerate('xyz'):
            if not (name.split('@')[0] == 'components-partial-shift' and c == 'x'):
                d['beta' + c] = be[i]
            d['dtbeta' + c] = dtb[i]
        rho0, eps, rho = symarray('rho0', ()), symarray('eps', ()), symarray('rho', ())
        W = symarray('W', ())
        pre += [tm.lt(tm.ZERO, W[0, 0, 0].t)]
        d.update(press=symarray('press', ()), w_lorentz=W, velx=symarray('v0', ()), vely=symarray('v1', ()),
                 velz=symarray('v2', ()))
        pre += [tm.lt(tm.const(-1), eps[0, 0, 0].t), tm.le(tm.ZERO, rho[0, 0, 0].t)]
        zero = np.empty((1, 1, 1), dtype=object)
        zero[0, 0, 0] = np.float64(0.0)
        if name.endswith('@rho0=0'):
            rho0 = zero                      # vacuum region: rest-mass density exactly zero
        else:
            pre += [tm.lt(tm.ZERO, rho0[0, 0, 0].t)]
        base = name.split('@')[0]
        if base == 'components-rho-eps':
            d.update(rho=rho, eps=eps)
        elif base == 'components-rho-rho0':
            d.update(rho=(zero if name.endswith('@rho0=0') else rho), rho0=rho0)
        elif base == 'components-rho0-only':
            d.update(rho0=rho0)
        else:
            d.update(rho0=rho0, eps=eps)
    return d, pre


PATTERNS = ['tensor', 'tensor-vacuum', 'components', 'components@rho0=0', 'components-rho-eps', 'components-rho-rho0',
            'components-rho-rho0@rho0=0', 'components-rho0-only', 'components-rho0-only@rho0=0',
            'components-partial-shift']


def continuum_guards(pname, inputs):
    """guard keys whose two branches agree only in the continuum limit for data solving Einstein's
    equations (both branches are compared with the common textbook oracle in C04 / C10)."""
    cg = {'st_Weyl_down4': {'st_Riemann_down4'}}
    if 'Tdown4' not in inputs:
        cg['st_Ricci_down4'] = {'Tdown4'}
        cg['st_Ricci_down3'] = {'st_Ricci_down4'}
    return cg


def continuum_affected(pname, inputs):
    """keys whose value (transitively) depends on a continuum-class branch choice under this pattern"""
    if 'Tdown4' in inputs:
        return {'st_Weyl_down4'}
    return {'st_Weyl_down4', 'st_Ricci_down4', 'st_Ricci_down3', 'st_Riemann_down4', 'st_RicciS', 'Einsteindown4'}


def fresh(name, inputs, **kw):
    from aurel.core import AurelCore
    rel = AurelCore(UninterpretedFD(), verbose=False, vacuum=(name == 'tensor-vacuum'), **kw)
    for k, v in inputs.items():
        rel.data[k] = v
    rel.freeze_data()
    return rel


# ------------------------------------------------------------------------- value comparison
def flatten(v, path=''):
    """value -> list of (path, element) for arrays / lists / tuples / dicts / None."""
    if v is None:
        return [(path, None)]
    if isinstance(v, np.ndarray):
        return [(f"{path}{list(i)}", v[i]) for i in np.ndindex(*v.shape)] + [(path + '.shape', v.shape)]
    if isinstance(v, (list, tuple)):
        out = [(path + '.len', len(v))]
        for i, x in enumerate(v):
            out += flatten(x, f"{path}<{i}>")
        return out
    if isinstance(v, dict):
        out = [(path + '.keys', tuple(sorted(map(str, v))))]
        for k in sorted(v, key=str):
            out += flatten(v[k], f"{path}<{k}>")
        return out
    return [(path, v)]


def elem_terms(e):
    if isinstance(e, SymComplex):
        return [t for part in (e.re, e.im) for t in elem_terms(part)]
    if isinstance(e, SymReal):
        return [e.t]
    if isinstance(e, Jet):
        return [e.c[()]]
    if isinstance(e, (int, float, np.floating, np.integer)):
        return [tm.const(e)]
    if isinstance(e, complex):
        return [tm.const(e.real), tm.const(e.imag)]
    return None


def compare(name, va, vb, pre, group):
    """-> (list of Ob for non-syntactic differences, structural mismatch description or None)"""
    fa, fb = flatten(va), flatten(vb)
    if len(fa) != len(fb):
        return [], f"structure differs ({len(fa)} vs {len(fb)} leaves)"
    obs = []
    for (pa, ea), (pb, eb) in zip(fa, fb):
        if pa != pb:
            return [], f"structure differs at {pa} / {pb}"
        ta, tb = elem_terms(ea), elem_terms(eb)
        if ta is None or tb is None:
            if ea != eb and not (ea is None and eb is None):
                return [], f"non-numeric leaf differs at {pa}: {ea!r} vs {eb!r}"
            continue
        if len(ta) != len(tb):
            return [], f"leaf kind differs at {pa}"
        for q, (x, y) in enumerate(zip(ta, tb)):
            obs.append(Ob(f"{name}{pa}" + ('' if len(ta) == 1 else '.im' if q else '.re'), x, y, pre,
                          group=group, meta=dict(key=name)))
    return obs, None


# ------------------------------------------------------------------------- the two harnesses
def guard_step_obligations(report, guards, tier, patterns=None):
    """Inductive step: every guard assignment of every guarded body, every pattern."""
    from aurel.core import descriptions
    obs = []
    executed, skipped = 0, []
    crashes = report.extra.setdefault('_crashes', [])
    for pname in (patterns or PATTERNS):
        inputs, pre = pattern_inputs(pname)
        canon = {}

        def V(key):
            if key not in canon:
                canon[key] = fresh(pname, inputs)[key]
            return canon[key]
        for k, G in sorted(guards.items()):
            if k in inputs:
                continue                       # a supplied input is returned as is
            cg = continuum_guards(pname, inputs).get(k, set())
            G_free = [g for g in G if g not in inputs and g in descriptions and g not in cg]
            c = Ctx(pre=pre, fork=False)
            with use_ctx(c):
                try:
                    vk = V(k)
                except Exception as e:  # noqa
                    skipped.append((pname, k, repr(e)[:80]))
                    continue
                sizes = range(len(G_free) + 1)
                if tier == 'quick' and len(G_free) > 2:
                    sizes = [0, 1, len(G_free)]
                for r in sizes:
                    for S in itertools.combinations(G_free, r):
                        rel = fresh(pname, inputs)
                        try:
                            for g in S:
                                rel.data[g] = V(g)
                            got = rel[k]
                        except Inconclusive as e:
                            skipped.append((pname, k, f"state {S}: {e!r}"[:120]))
                            continue
                        except Exception as e:  # noqa
                            name = f"{pname}:{k}|cached={'+'.join(S) or 'nothing'}"
                            report.record(name, 'sat', group=f"guard step: {k}", kind='exception')
                            crashes.append(dict(pattern=pname, key=k, cached=list(S), history=[], error=repr(e)[:200]))
                            continue
                        executed += 1
                        name = f"{pname}:{k}|cached={'+'.join(S) or 'nothing'}"
                        o, mismatch = compare(name, got, vk, pre, group=f"guard step: {k}")
                        if mismatch:
                            report.record(name, 'sat', group=f"guard step: {k}", kind='structure')
                            report.violation(f"{pname}:{k}", f"{name}: {mismatch}",
                                             report.write_replay(name, dict(pattern=pname, key=k, cached=list(S),
                                                                            mismatch=mismatch)))
                        obs += o
    report.extra['guard_states_executed'] = executed
    report.extra['guard_states_skipped'] = skipped[:40]
    return obs


HISTORY_KEYS = ['betaup3', 'betadown3', 'gdown4', 'gup4', 'gammadown3', 'Kdown3', 'rho', 'rho0', 'eps', 'enthalpy', 'Tdown4',
                'Ttrace', 'rho_n', 'press_n', 's_Riemann_down3', 's_Ricci_down3', 'st_Ricci_down4', 'st_Ricci_down3',
                'st_Riemann_down4', 'st_Weyl_down4', 'Momentumup3', 'Momentumx', 'gdet', 'gtt', 'gxx', 'kxx', 'betax',
                'dtbetax', 'Hamiltonian', 'eweyl_n_down3']
FILLERS = ['gammadet', 'Ktrace', 'gammaup3']


def history_obligations(report, guards, tier, patterns=None):
    """Explicit histories through the real __getitem__/cleanup_cache with clear_cache_every_nbr_calc=1
    and a 1-byte memory threshold: [h], [h, fillers...] then the final request k."""
    obs = []
    n_hist = 0
    skipped = []
    pats = (['tensor', 'components', 'components-rho0-only@rho0=0', 'components-partial-shift'] if tier == 'quick'
            else PATTERNS)
    if patterns is not None:
        pats = [p_ for p_ in pats if p_ in patterns]
    crashes = report.extra.setdefault('_crashes', [])
    HEAVY = {'st_Riemann_down4', 'st_Ricci_down4', 'st_Ricci_down3'}
    finals = sorted(set(guards) | {'rho', 'enthalpy', 'Tdown4', 'Hamiltonian', 'st_Riemann_down4'})
    for pname in pats:
        inputs, pre = pattern_inputs(pname)
        canon = {}
        c = Ctx(pre=pre, fork=False)
        with use_ctx(c):
            for k in finals:
                if k in inputs or k in continuum_affected(pname, inputs):
                    continue
                if tier == 'quick' and k in HEAVY and pname != 'tensor':
                    continue
                try:
                    canon[k] = fresh(pname, inputs)[k]
                except Exception as e:  # noqa
                    skipped.append((pname, k, repr(e)[:80]))
            for k in canon:
                hs = [h for h in HISTORY_KEYS if h != k and h not in inputs]
                if tier == 'quick':
                    related = set(guards.get(k, [])) | {'betaup3', 'rho', 'Tdown4', 'gdown4', 'Momentumx'}
                    hs = [h for h in hs if h in related]
                if k in HEAVY:
                    hs = hs[:3]
                for h in hs:
                    for fill in ([], FILLERS):
                        rel = fresh(pname, inputs, clear_cache_every_nbr_calc=1, memory_threshold_inGB=1e-9)
                        try:
                            rel[h]
                            for f_ in fill:
                                rel[f_]
                            got = rel[k]
                        except Inconclusive as e:
                            skipped.append((pname, k, f"history {[h] + fill}: {e!r}"[:120]))
                            continue
                        except Exception as e:  # noqa
                            name = f"{pname}:{k}|after={'>'.join([h] + fill)}"
                            report.record(name, 'sat', group=f"eviction history: {k}", kind='exception')
                            crashes.append(dict(pattern=pname, key=k, cached=[], history=[h] + fill, error=repr(e)[:200]))
                            continue
                        n_hist += 1
                        name = f"{pname}:{k}|after={'>'.join([h] + fill)}"
                        o, mismatch = compare(name, got, canon[k], pre, group=f"eviction history: {k}")
                        if mismatch:
                            report.record(name, 'sat', group=f"eviction history: {k}", kind='structure')
                            report.violation(f"{pname}:{k}", f"{name}: {mismatch}",
                                             report.write_replay(name, dict(pattern=pname, key=k, history=[h] + fill)))
                        obs += o
    # [k, consumer, k]: a consumer must not corrupt the cached entry it reads (default cache settings)
    from aurel.core import descriptions
    for pname in [p_ for p_ in (['tensor'] if tier == 'quick' else ['tensor', 'components']) if patterns is None or p_ in patterns]:
        inputs, pre = pattern_inputs(pname)
        c = Ctx(pre=pre, fork=False)
        canon = {}
        with use_ctx(c):
            for k, f in alias_pairs():
                if k in inputs or k not in descriptions or f not in descriptions or f in inputs:
                    continue
                try:
                    if k not in canon:
                        canon[k] = fresh(pname, inputs)[k]
                    rel = fresh(pname, inputs)
                    rel[k]
                    rel[f]
                    got = rel[k]
                except Inconclusive as e:
                    skipped.append((pname, k, f"[{k},{f},{k}]: {e!r}"[:120]))
                    continue
                except Exception as e:  # noqa
                    skipped.append((pname, k, f"[{k},{f},{k}]: {e!r}"[:120]))
                    continue
                n_hist += 1
                name = f"{pname}:{k}|after={k}>{f}>@default-cache"
                o, mismatch = compare(name, got, canon[k], pre, group=f"consumer must not corrupt cached {k}")
                if mismatch:
                    report.record(name, 'sat', group=f"consumer must not corrupt cached {k}", kind='structure')
                    report.violation(f"{pname}:{k}", f"{name}: {mismatch}",
                                     report.write_replay(name, dict(pattern=pname, key=k, history=[k, f])))
                obs += o
    report.extra['histories_executed'] = n_hist
    report.extra['histories_skipped'] = skipped[:40]
    return obs


# ------------------------------------------------------------------------- cached entries are never modified in place
def sweep_obligations(report, tier, patterns=None):
    """One instance per pattern whose `data` keeps a snapshot of every array at the moment it is stored (WatchDict): every
    description key is requested once (default cache settings); after each request every cached entry must still hold the
    elements that were stored.  A changed entry becomes the history [entry, consumer, entry] for the solver and the replay."""
    from aurel.core import descriptions
    from symx.harness import watch
    obs = []
    pats = ['tensor'] if tier == 'quick' else ['tensor', 'components']
    if patterns is not None:
        pats = [p_ for p_ in pats if p_ in patterns]
    n_req = 0
    for pname in pats:
        inputs, pre = pattern_inputs(pname)
        c = Ctx(pre=pre, fork=False)
        reported = set()
        with use_ctx(c):
            rel = watch(fresh(pname, inputs))
            for k in sorted(descriptions):
                if k in inputs:
                    continue
                try:
                    rel[k]
                except BaseException as e:  # noqa  (Inconclusive and anything a key needs that the pointwise harness lacks)
                    if not isinstance(e, Exception) and not isinstance(e, Inconclusive):
                        raise
                    continue
                n_req += 1
                for key_, idx_, old_, new_ in rel.data.changed():
                    if (key_, idx_) in reported:
                        continue
                    reported.add((key_, idx_))
                    ta, tb = elem_terms(new_), elem_terms(old_)
                    if ta is None or tb is None or len(ta) != len(tb):
                        continue
                    for q_, (x_, y_) in enumerate(zip(ta, tb)):
                        obs.append(Ob(f"{pname}:{key_}|after={key_}>{k}>@default-cache{list(idx_)}" + ('' if len(ta) == 1 else '.im' if q_ else '.re'),
                                      x_, y_, pre, group='cached entries are not modified in place (sweep over all keys)', meta=dict(key=key_)))
    report.extra['sweep_requests'] = n_req
    report.record('sweep: every description key requested once on a snapshotting cache', 'holds', group='cached entries are not modified in place (sweep over all keys)',
                  kind='concrete', trivial=True)
    return obs


# ------------------------------------------------------------------------- helper-call histories
def helper_calls():
    """(method, argument builder, tag): public helpers with array arguments.  A / B are two independent symbolic
    argument sets; build(X) -> positional args"""
    return [
        ('null_ray_expansion', lambda X: (X['s'], 'out'), 'F,out'),
        ('null_ray_expansion', lambda X: (X['s'], 'in'), 'F,in'),
        ('s_covd', lambda X: (X['s'], ''), 'scalar'),
        ('s_covd', lambda X: (X['v'], 'u'), 'u'),
        ('s_covd', lambda X: (X['v'], 'd'), 'd'),
        ('s_covd', lambda X: (X['t'], 'dd'), 'dd'),
        ('s_div', lambda X: (X['v'], 'u'), 'u'),
        ('s_div', lambda X: (X['t'], 'dd'), 'dd'),
        ('s_curl', lambda X: (X['t'], 'dd'), 'dd'),
        ('Lie_beta', lambda X: (X['s'], ''), 'scalar'),
        ('Lie_beta', lambda X: (X['v'], 's_u'), 's_u'),
        ('Lie_beta', lambda X: (X['t'], 's_dd'), 's_dd'),
        ('s_to_st', lambda X: (X['t'],), 'dd'),
        ('trace3', lambda X: (X['t'],), ''),
        ('tracefree3', lambda X: (X['t'],), ''),
        ('magnitude3', lambda X: (X['v'],), ''),
        ('norm3', lambda X: (X['v'],), ''),
        ('vector_inner_product3', lambda X: (X['v'], X['v2']), ''),
    ]


def helper_args(tag):
    return dict(s=symarray(tag + 's', ()), v=symarray(tag + 'v', (3,)), v2=symarray(tag + 'w', (3,)),
                t=symarray(tag + 't', (3, 3), symmetric=True))


def helper_history_obligations(report, tier, patterns=None):
    """[helper(A), helper(B)] and [helper(A, variant 1), helper(B, variant 2)] on one instance against helper(B) on a fresh
    instance, A and B independent symbolic arguments: a helper must not remember anything about an earlier call (state
    kept outside `data` included).  Also [helper(A), k] for the description keys built on that helper."""
    obs = []
    n = 0
    skipped = []
    pats = ['tensor'] if tier == 'quick' else ['tensor', 'components']
    if patterns is not None:
        pats = [p_ for p_ in pats if p_ in patterns]
    calls = helper_calls()
    for pname in pats:
        inputs, pre = pattern_inputs(pname)
        c = Ctx(pre=pre, fork=False)
        with use_ctx(c):
            A, B = helper_args('hA'), helper_args('hB')
            # null_ray_expansion normalises the gradient of F: the surfaces F = const must be regular (|dF| > 0)
            pre = list(pre)
            r0 = fresh(pname, inputs)
            for X in (A, B):
                dF = r0.fd.d3_scalar(X['s'])
                q = np.einsum('ij..., i..., j... -> ...', r0['gammaup3'], dF, dF)
                pre.append(tm.lt(tm.ZERO, q[0, 0, 0].t))
            c.pre = list(pre)
            c.cache.clear()
            for (m1, b1, t1) in calls:
                for (m2, b2, t2) in calls:
                    if m1 != m2:
                        continue
                    if tier == 'quick' and (t1, t2) not in {(t1, t1)} and m1 != 'null_ray_expansion':
                        continue
                    name = f"{pname}:{m2}({t2})|after={m1}({t1}) with other arguments"
                    try:
                        want = getattr(fresh(pname, inputs), m2)(*b2(B))
                        rel = fresh(pname, inputs)
                        getattr(rel, m1)(*b1(A))
                        got = getattr(rel, m2)(*b2(B))
                    except Inconclusive as e:
                        skipped.append((pname, name, repr(e)[:100]))
                        continue
                    except Exception as e:  # noqa
                        skipped.append((pname, name, repr(e)[:100]))
                        continue
                    n += 1
                    o, mismatch = compare(name, got, want, pre, group=f"helper history: {m2}")
                    if mismatch:
                        report.record(name, 'sat', group=f"helper history: {m2}", kind='structure')
                        report.violation(f"{pname}:{m2}:helper", f"{name}: {mismatch}",
                                         report.write_replay(name, dict(pattern=pname, helper=m2, mismatch=mismatch)))
                    obs += o
    report.extra['helper_histories_executed'] = n
    report.extra['helper_histories_skipped'] = skipped[:20]
    return obs


def helper_replay(pattern, name):
    """float replay of a helper history named `<pattern>:<m2>(<t2>)|after=<m1>(<t1>) with other arguments`"""
    import re
    from aurel.core import AurelCore
    from symx.harness import grid_fd
    m = re.match(r"(?P<p>[^:]+):(?P<m2>\w+)\((?P<t2>[^)]*)\)\|after=(?P<m1>\w+)\((?P<t1>[^)]*)\)", name)
    calls = {(mm, tt): b for mm, b, tt in helper_calls()}
    fd = grid_fd(9, 0.1, fd_order=4)
    x, y, z = fd.x, fd.y, fd.z

    def fields(k):
        s_ = 1.0 + 0.3 * np.sin((1 + k) * x) * np.cos(0.7 * y + k) + 0.1 * z * (1 + k) + 0.5 * k * x * x
        v_ = np.array([np.sin(x + k) + 0.2 * y, np.cos(y * (1 + 0.5 * k)) + 0.1 * z, 0.3 * x * z + k * 0.2 * np.sin(z)])
        w_ = np.array([0.2 * np.cos(x) + k, 0.4 * np.sin(z + k), 0.1 * y * y])
        t_ = np.array([[1.0 + 0.1 * (i + j) * np.sin(x + (i + 1) * y + k) + 0.05 * k * (i * j + 1) * z for j in range(3)] for i in range(3)])
        t_ = 0.5 * (t_ + np.swapaxes(t_, 0, 1))
        return dict(s=s_, v=v_, v2=w_, t=t_)

    def mk():
        rel = AurelCore(fd, verbose=False)
        g = np.zeros((3, 3) + x.shape)
        for i in range(3):
            g[i, i] = 1.5 + 0.1 * (i + 1) * np.sin(x + 0.5 * i) * np.cos(y)
        g[0, 1] = g[1, 0] = 0.05 * np.cos(z)
        K = np.zeros((3, 3) + x.shape)
        for i in range(3):
            K[i, i] = -0.2 - 0.05 * i + 0.02 * np.cos(y + i)
        K[0, 2] = K[2, 0] = 0.015 * np.cos(x)
        rel.data.update(gammadown3=g, Kdown3=K, alpha=1.2 + 0.1 * np.cos(x + y),
                        betaup3=np.array([0.1 * np.sin(y), 0.05 * np.cos(z), 0.02 * x]))
        rel.freeze_data()
        return rel
    A, B = fields(0), fields(1)
    b1, b2 = calls[(m['m1'], m['t1'])], calls[(m['m2'], m['t2'])]
    with np.errstate(all='ignore'):
        want = getattr(mk(), m['m2'])(*b2(B))
        rel = mk()
        getattr(rel, m['m1'])(*b1(A))
        got = getattr(rel, m['m2'])(*b2(B))
    d = float(np.max(np.abs(np.asarray(got) - np.asarray(want))))
    return d


LAST_REPLAY = {}


def concrete_replay(pattern, key, cached, history, model):
    """Re-run the two instances with real numpy floats; returns max |difference| over the attempts below and leaves the
    reproducing attempt in LAST_REPLAY.  Attempts: (1) constant fields at the model values, the history as recorded;
    (2) smooth non-constant fields around the model values (derivative-dependent quantities vanish on constant fields);
    (3) for histories: the same requests under other cache settings / with one or two further requests, because which
    entries the real clean-up evicts depends on array sizes that differ between the symbolic and the float run.  Every
    attempt is a real run of the real code: whichever reproduces is a genuine failing history."""
    from aurel.core import AurelCore
    from symx.harness import grid_fd, eval_terms
    inputs, pre = pattern_inputs(pattern)
    fd = grid_fd(9, 0.1, fd_order=4)
    LAST_REPLAY.clear()

    def realise(a, mode):
        out = np.zeros(a.shape[:-3] + fd.x.shape)
        for n_, idx in enumerate(np.ndindex(*a.shape[:-3])):
            e = a[idx + (0, 0, 0)]
            base = float(eval_terms([e.t], model)[0]) if isinstance(e, SymReal) else float(e)
            out[idx] = base
            if mode == 'smooth':
                out[idx] = base + 0.02 * (1 + abs(base)) * (np.sin((1 + 0.3 * n_) * fd.x + 0.2 * n_) * np.cos((0.5 + 0.2 * n_) * fd.y)
                                                            + 0.5 * np.sin(0.7 * fd.z + 0.4 * n_))
        return out

    def worst_of(got, want):
        worst = 0.0
        for (pa, a), (pb, b) in zip(flatten(got), flatten(want)):
            if isinstance(a, (float, np.floating, complex, np.complexfloating)) and isinstance(b, (float, np.floating, complex, np.complexfloating)):
                if np.isnan(a) and np.isnan(b):
                    continue
                d = abs(a - b)
                worst = max(worst, float(d) if np.isfinite(d) else 1e300)
        return worst

    best = 0.0
    first_error = None
    for mode in ('const', 'smooth'):
        def mk(**kw):
            rel = AurelCore(fd, verbose=False, vacuum=(pattern == 'tensor-vacuum'), **kw)
            for k, v in inputs.items():
                rel.data[k] = realise(v, mode)
            rel.freeze_data()
            return rel
        with np.errstate(all='ignore'):
            want = mk()[key]
            attempts = []
            if history and history[-1] == '@default-cache':
                attempts.append((dict(), history[:-1]))
            elif history:
                for kw in (dict(clear_cache_every_nbr_calc=1, memory_threshold_inGB=1e-9), dict(clear_cache_every_nbr_calc=1),
                           dict(clear_cache_every_nbr_calc=2), dict(clear_cache_every_nbr_calc=3)):
                    for extra in ([], ['Kdown3'], ['Kdown3', 'Ktrace'], ['betaup3'], ['gammadet', 'Ktrace', 'gammaup3']):
                        attempts.append((kw, list(history) + [e_ for e_ in extra if e_ != key]))
            else:
                attempts.append((None, []))
            for kw, hist in attempts:
                try:
                    if kw is None:
                        rel = mk()
                        for g in cached:
                            rel.data[g] = mk()[g]
                    else:
                        rel = mk(**kw)
                        for h in hist:
                            rel[h]
                    got = rel[key]
                except Exception as e:  # noqa
                    if first_error is None:
                        first_error = e
                    continue
                w = worst_of(got, want)
                if w > best:
                    best = w
                    LAST_REPLAY.update(mode=mode, cache_settings=kw, history=hist, max_abs_difference=w)
                if w > 1e-9:
                    return w
    if first_error is not None and best <= 1e-9:
        raise first_error
    return best


class _Rec:
    """minimal stand-in for Report inside worker processes"""

    def __init__(self):
        self.extra = {}
        self.records = []
        self.viol = []

    def record(self, name, verdict, seconds=0.0, backend='z3old', sha='', group=None, trivial=False, kind='identity',
               detail=None):
        self.records.append(dict(name=name, verdict=verdict, seconds=seconds, backend=backend, sha=sha,
                                 group=group or name, trivial=trivial, kind=kind, detail=detail))

    def violation(self, key, what, path):
        self.viol.append((key, what, path))

    def write_replay(self, key, payload):
        return Report_write_replay(key, payload)


def Report_write_replay(key, payload):
    import json
    from symx.harness import VERIF
    d = os.path.join(VERIF, 'replays')
    os.makedirs(d, exist_ok=True)
    safe = ''.join(ch if ch.isalnum() or ch in '-_.' else '_' for ch in key)
    path = os.path.join(d, f"{PID}_{safe}.json")
    with open(path, 'w') as f:
        json.dump(payload, f, indent=1, default=str)
    return path


def _sampler(rng):
    from fractions import Fraction as F
    envs = [{f'g{i}{j}': F(v) for (i, j), v in gr.DESIGNED_GAMMA[w].items()} for w in (0, 1)]
    env = dict(envs[rng.randrange(2)])
    for n in ['al', 'W', 'rho0', 'rho']:
        env[n] = F(rng.randint(4, 16), 8)
    for n in ['dta', 'eps', 'press', 'v0', 'v1', 'v2'] + [f'b{i}' for i in range(3)] + [f'dtb{i}' for i in range(3)]:
        env[n] = F(rng.choice([-5, -3, 1, 2, 7]), 8)
    for i in range(4):
        for j in range(i, 4):
            env[f'T{i}{j}'] = F(rng.choice([-5, -3, 1, 2, 7]), 8)
            if j < 3 and i < 3:
                env[f'K{i}{j}'] = F(rng.choice([-5, -3, 1, 2, 7]), 8)
    return env


def run_pattern(args):
    """worker: everything for one input pattern; returns plain data only."""
    pname, tier, seed, trace = args
    import random
    from fractions import Fraction as F
    from symx.harness import solve_ladder
    guards, helpers = extract_guards()
    rec = _Rec()
    seen = set()
    with patched():
        if trace:
            with FuncTrace() as ft:
                obs = guard_step_obligations(rec, guards, tier, [pname])
                obs += history_obligations(rec, guards, tier, [pname])
                obs += helper_history_obligations(rec, tier, [pname])
                obs += sweep_obligations(rec, tier, [pname])
            seen = ft.seen
        else:
            obs = guard_step_obligations(rec, guards, tier, [pname])
            obs += history_obligations(rec, guards, tier, [pname])
            obs += helper_history_obligations(rec, tier, [pname])
            obs += sweep_obligations(rec, tier, [pname])
        envs = [{f'g{i}{j}': F(v) for (i, j), v in gr.DESIGNED_GAMMA[w].items()} for w in (0, 1)]
        rungs = [dict(name='full', envs=[None], timeout=30 if tier == 'quick' else 200),
                 dict(name='slices:metric-value-fixed', envs=envs, timeout=200 if tier == 'quick' else 600)]
        solve_ladder(obs, rungs, sampler=_sampler, rng=random.Random(seed), workers=2)
    out = []
    for ob in obs:
        r = ob.result
        out.append(dict(name=ob.name, verdict=r['verdict'], seconds=round(r['seconds'], 3), backend=r.get('backend', 'z3old'),
                        sha=r['sha'], group=ob.group, trivial=r.get('trivial', False), kind='identity', detail=r['rung'],
                        model=({k: str(v) for k, v in r['model'].items() if v is not None} if r['verdict'] == 'sat' else None)))
    return dict(pattern=pname, obs=out, records=rec.records, viol=rec.viol, extra=rec.extra, functions=sorted(seen),
                stats=solver.STATS.as_dict())


def main(report, tier, seed, workers, calibrate=False):
    import multiprocessing as mp
    from fractions import Fraction
    guards, helpers = extract_guards()
    report.extra['guard_sites'] = {k: v for k, v in guards.items()}
    report.extra['guarded_helpers'] = helpers
    report.bounds = dict(grid='1x1x1 pointwise, derivative operator uninterpreted (exact class)',
                         patterns=PATTERNS, guard_assignments='all subsets of the guard keys of each body (quick: sizes '
                         '0, 1 and all for bodies with more than two guard keys)',
                         histories='[h, k] and [h, 3 fillers, k] under clear_cache_every_nbr_calc=1, memory_threshold 1 byte',
                         helper_histories='[helper(A), helper(B)] for every public helper with array arguments (two independent symbolic '
                         'argument sets; null_ray_expansion also across directions) against helper(B) on a fresh instance',
                         outside=['float round-off between algebraically equal branches', 'user writes into rel.data',
                                  'continuum-class branch pairs (st_Ricci_down4 from T vs contraction; st_Weyl_down4 '
                                  'Riemann vs E/B branch) - discharged against the common oracle in C04 / C10',
                                  'Psi4_lm (interpolation)'])
    report.assumptions += ['lapse > 0, metric positive definite, W > 0, eps > -1, rho >= 0; rho0 > 0 or rho0 = 0 exactly '
                           '(two pattern variants)',
                           'induction over the call DAG: unguarded bodies read the cache only through self[...]',
                           'eviction policy influences a value only through which keys are present (C03)']
    report.stubs += ['aurel.*.np -> symx.npproxy', 'FiniteDifference.d3x/d3y/d3z -> uninterpreted functions']
    report.extra['source_sha1'] = source_digest(FILES)
    jobs = [(p_, tier, seed, i == 0) for i, p_ in enumerate(PATTERNS)]
    with mp.Pool(min(len(jobs), max(2, workers // 2))) as pool:
        results = pool.map(run_pattern, jobs, chunksize=1)
    seen_keys = set()
    n_exec = n_hist = 0
    skipped = []
    crashes = []
    for res in results:
        report.functions |= set(res['functions'])
        st = res['stats']
        solver.STATS.queries += st['queries']
        solver.STATS.seconds += st['solver_seconds']
        for k, v in st['by_verdict'].items():
            solver.STATS.by_verdict[k] = solver.STATS.by_verdict.get(k, 0) + v
        for k, v in st['by_backend'].items():
            solver.STATS.by_backend[k] = solver.STATS.by_backend.get(k, 0) + v
        n_exec += res['extra'].get('guard_states_executed', 0)
        n_hist += res['extra'].get('histories_executed', 0)
        report.extra['sweep_requests'] = report.extra.get('sweep_requests', 0) + res['extra'].get('sweep_requests', 0)
        report.extra['helper_histories_executed'] = report.extra.get('helper_histories_executed', 0) + res['extra'].get('helper_histories_executed', 0)
        if res['extra'].get('helper_histories_skipped'):
            report.extra.setdefault('helper_histories_skipped', []).extend(res['extra']['helper_histories_skipped'])
        skipped += res['extra'].get('guard_states_skipped', []) + res['extra'].get('histories_skipped', [])
        crashes += res['extra'].get('_crashes', [])
        report.obs += res['records']
        for key, what, path in res['viol']:
            report.violation(key, what, path)
        for o in res['obs']:
            model = o.pop('model')
            report.obs.append(o)
            if o['verdict'] == 'unknown':
                report.inconc(o['name'], 'not settled')
            elif o['verdict'] == 'sat':
                head = o['name'].split('[')[0].split('<')[0]
                pattern, rest = head.split(':', 1)
                key, how = rest.split('|', 1)
                vkey = f"{pattern}:{key}"
                if vkey in seen_keys:
                    continue
                cached, history = [], []
                if 'with other arguments' in how:
                    try:
                        worst = helper_replay(pattern, o['name'])
                    except Exception as e:  # noqa
                        report.harness_errors.append(f"replay of {o['name']} raised {e!r}")
                        continue
                    if worst > 1e-9:
                        seen_keys.add(vkey)
                        path = report.write_replay(vkey + ':helper', dict(pattern=pattern, key=key, helper_history=head, model=model,
                                                                          max_abs_difference=worst))
                        report.violation(vkey + ':helper', f"{head}: the helper's result depends on an earlier call with other arguments "
                                         f"(differs from a fresh instance by {worst:.3g})", path)
                    else:
                        report.harness_errors.append(f"model for {o['name']} does not reproduce on floats (diff {worst})")
                    continue
                if how.startswith('cached='):
                    cached = [x for x in how[len('cached='):].split('+') if x != 'nothing']
                else:
                    history = how[len('after='):].split('>')
                m = {k: Fraction(v) for k, v in model.items()}
                try:
                    worst = concrete_replay(pattern, key, cached, history, m)
                except Exception as e:  # noqa
                    report.harness_errors.append(f"replay of {o['name']} raised {e!r}")
                    continue
                if worst > 1e-9:
                    seen_keys.add(vkey)
                    path = report.write_replay(vkey, dict(pattern=pattern, key=key, cached=cached, history=history,
                                                          model=model, max_abs_difference=worst, reproduced_by=dict(LAST_REPLAY)))
                    report.violation(vkey, f"{head}: value after this history differs from the fresh-instance value "
                                     f"by {worst:.3g}", path)
                else:
                    report.harness_errors.append(f"model for {o['name']} does not reproduce on floats (diff {worst})")
    report.extra['guard_states_executed'] = n_exec
    report.extra['histories_executed'] = n_hist
    report.extra['skipped'] = skipped[:40]
    for cr in crashes:
        vkey = f"{cr['pattern']}:{cr['key']}:raises"
        if vkey in seen_keys:
            continue
        seen_keys.add(vkey)
        try:
            concrete_replay(cr['pattern'], cr['key'], cr['cached'], cr['history'], {})
            reproduced = False
        except Exception as e:  # noqa (RecursionError included)
            reproduced = True
        if reproduced:
            path = report.write_replay(vkey, dict(pattern=cr['pattern'], key=cr['key'], cached=cr['cached'],
                                                  history=cr['history'], model={}, error=cr['error']))
            report.violation(vkey, f"request of {cr['key']} raises {cr['error']} after cached={cr['cached']} "
                             f"history={cr['history']} although a fresh instance returns a value", path)
        else:
            report.harness_errors.append(f"symbolic run raised {cr['error']} but the float replay did not: {cr}")
    with patched():
        vacuity(report, pattern_inputs('components')[1], 'components:pre')


def replay_payload(payload):
    from fractions import Fraction
    model = {k: Fraction(v) for k, v in payload['model'].items()}
    try:
        w = concrete_replay(payload['pattern'], payload['key'], payload.get('cached', []), payload.get('history', []), model)
    except Exception as e:  # noqa
        print('raises', repr(e)[:200])
        return 1
    print('max |difference| =', w)
    return 1 if w > 1e-9 else 0
