#!/bin/bash
# [SEED_SRC=dir SEED_DEST_I=n] tools/seed_eval.sh <PROP> <i> [tier] : confirm a seeded change (tests pass, demo fails with / passes without)
# and run the corresponding check against it in a scratch worktree.  Writes /verif/seeded/<PROP>_<i>/.
PROP=$1; I=$2; TIER=${3:-quick}
SRC=${SEED_SRC:-/tmp/seed_$PROP/out}          # SEED_SRC / SEED_DEST_I: second-round seeds live elsewhere and get new numbers
DI=${SEED_DEST_I:-$I}
DEST=/verif/seeded/${PROP}_$DI
mkdir -p $DEST
cp $SRC/patch_$I.diff $DEST/patch.diff; cp $SRC/demo_$I.py $DEST/demo.py; cp $SRC/meta_$I.json $DEST/meta_agent.json
WT=$(mktemp -d /tmp/sev_XXXXXX)
git -C /repo worktree add -f "$WT" HEAD >/dev/null 2>&1
cd $WT
PYTHONPATH=$WT/src timeout 900 /venv/bin/python $DEST/demo.py >/tmp/sev_clean_$PROP$DI.log 2>&1; CLEAN=$?
git apply $DEST/patch.diff || { echo "PATCH DOES NOT APPLY"; }
PYTHONPATH=$WT/src timeout 900 /venv/bin/python $DEST/demo.py >/tmp/sev_mut_$PROP$DI.log 2>&1; MUT=$?
TESTS=$(PYTHONPATH=$WT/src /venv/bin/python -m pytest -q -p no:cacheprovider --timeout=900 -q 2>&1 | tail -1)
git clean -fdq tests/ 2>/dev/null
cd /verif
AUREL_REPO="$WT" VERIF_EVIDENCE_DIR="$WT/.ev" VERIF_REPLAY_DIR="$WT/.rp" timeout 3000 ./check "$PROP" --tier "$TIER" > /tmp/sev_check_$PROP$DI.log 2>&1; CHK=$?
NVIOL=$(grep -c "^VIOLATION" /tmp/sev_check_$PROP$DI.log)
FIRST=$(grep -A1 "^VIOLATION" /tmp/sev_check_$PROP$DI.log | sed -n 2p | cut -c1-300)
git -C /repo worktree remove --force "$WT"
echo "$PROP/$DI demo_clean_exit=$CLEAN demo_mut_exit=$MUT tests='$TESTS' check_exit=$CHK violations=$NVIOL first='$FIRST'"
export SE_PROP="$PROP" SE_TIER="$TIER" SE_CLEAN="$CLEAN" SE_MUT="$MUT" SE_TESTS="$TESTS" SE_CHK="$CHK" SE_NVIOL="$NVIOL" SE_FIRST="$FIRST" SE_DEST="$DEST"
python3 - <<'PY'
import json, os
E = os.environ
m = json.load(open(E['SE_DEST'] + '/meta_agent.json'))
out = dict(property=E['SE_PROP'], breaks=m.get('summary'), needs_to_manifest=m.get('needs_to_manifest'), files=m.get('files'),
           confirmed=dict(demo_exit_on_clean_tree=int(E['SE_CLEAN']), demo_exit_with_patch=int(E['SE_MUT']), test_suite_with_patch=E['SE_TESTS'],
                          commands=['PYTHONPATH=<wt>/src /venv/bin/python demo.py (clean, then with patch)',
                                    'PYTHONPATH=<wt>/src /venv/bin/python -m pytest -q -p no:cacheprovider --timeout=900']),
           check=dict(cmd=f"AUREL_REPO=<wt> ./check {E['SE_PROP']} --tier {E['SE_TIER']}", exit=int(E['SE_CHK']), violations=int(E['SE_NVIOL']), first=E['SE_FIRST']))
json.dump(out, open(E['SE_DEST'] + '/meta.json', 'w'), indent=1)
PY
