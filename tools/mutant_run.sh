#!/bin/bash
# tools/mutant_run.sh <patch.diff> <ID> [tier]  -- run a check against a scratch copy of /repo with a patch applied.
# Development aid only (not a registered command): evidence/replays go to a temp dir.
set -e
PATCH=$(readlink -f "$1"); ID=$2; TIER=${3:-quick}
WT=$(mktemp -d /tmp/mut_XXXXXX)
git -C /repo worktree add -f "$WT" HEAD >/dev/null 2>&1
git -C "$WT" apply "$PATCH"
cd /verif
AUREL_REPO="$WT" VERIF_EVIDENCE_DIR="$WT/.ev" VERIF_REPLAY_DIR="$WT/.rp" ./check "$ID" --tier "$TIER" 2>&1 | grep -v "^WARNING conda" | tail -${TAILN:-6}
echo "exit=${PIPESTATUS[0]}"
git -C /repo worktree remove --force "$WT"
