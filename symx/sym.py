"""Symbolic values carried by numpy object arrays: SymReal, SymBool, SymComplex, and the
path-exploration context (solver-decided branches, decision-log replay)."""
import numbers
from fractions import Fraction

import numpy as np

from . import term as tm
from . import solver


class Inconclusive(Exception):
    """A branch or obligation the solver could not settle within its cap."""


class Infeasible(Exception):
    """Current path condition is unsatisfiable."""


class Ctx:
    """Preconditions + path condition + decision log for one symbolic run."""

    def __init__(self, pre=(), decide_timeout=20, backend='z3old', fork=True, prefix=(), ints=(), assume_undecided=False):
        self.assume_undecided = assume_undecided
        self.assumed = []
        self.inproc = None
        self.ints = tuple(ints)
        self.pre = list(pre)
        self.pc = []
        self.fork = fork
        self.decide_timeout = decide_timeout
        self.backend = backend
        self.prefix = list(prefix)     # forced decisions (replay of a path prefix)
        self.log = []                  # decisions taken at fork points on this run
        self.open = []                 # indices into log where the other branch is feasible
        self.cache = {}
        self.decision_queries = 0
        self.decision_seconds = 0.0
        self.forks = 0

    def _q(self, asserts):
        if self.backend == 'inproc':
            if self.inproc is None:
                from .z3py import InProc
                self.inproc = InProc(timeout_ms=int(self.decide_timeout * 1000), ints=self.ints)
            _s0 = self.inproc.seconds
            v, _ = self.inproc.check(asserts)
            _dt = self.inproc.seconds - _s0
            self.decision_seconds += _dt
            solver.STATS.add('z3py-inproc', v, _dt)
            return dict(verdict=v)
        return solver.check(asserts, self.decide_timeout, self.backend, want_model=False, tag='d')

    def model(self):
        """a model of pre & pc (for replays)"""
        if self.backend == 'inproc':
            if self.inproc is None:
                from .z3py import InProc
                self.inproc = InProc(timeout_ms=int(self.decide_timeout * 1000), ints=self.ints)
            return self.inproc.check(self.pre + self.pc, want_model=True)
        r = solver.check(self.pre + self.pc, self.decide_timeout, self.backend, want_model=True)
        return r['verdict'], r['model']

    def valid(self, cond):
        """Is cond entailed by pre & pc?  (no forking)  -> True / False / None (unknown)"""
        if isinstance(cond, SymBool):
            cond = cond.t
        if cond is tm.TRUE:
            return True
        r = self._q(self.pre + self.pc + [tm.bnot(cond)])
        if r['verdict'] == 'unsat':
            return True
        if r['verdict'] == 'sat':
            return False
        return None

    def assume(self, b):
        if isinstance(b, SymBool):
            b = b.t
        self.pre.append(b)
        self.cache.clear()

    def decide(self, cond):
        """Truth value of boolean term cond under pre & pc; forks when both feasible."""
        if cond is tm.TRUE:
            return True
        if cond is tm.FALSE:
            return False
        key = cond.id
        if key in self.cache:
            if self.cache[key] is None:
                raise Inconclusive("branch decision undecided (cached)")
            return self.cache[key]
        base = self.pre + self.pc
        self.decision_queries += 1
        rneg = self._q(base + [tm.bnot(cond)])
        if rneg['verdict'] == 'unsat':
            self.cache[key] = True
            return True
        self.decision_queries += 1
        rpos = self._q(base + [cond])
        if rpos['verdict'] == 'unsat':
            if rneg['verdict'] == 'unknown':
                # cond impossible; not-cond not refuted: take not-cond
                pass
            self.cache[key] = False
            return False
        if (self.assume_undecided and rpos['verdict'] == 'sat' and rneg['verdict'] == 'unknown'):
            # recorded assumption: the branch condition holds (its negation could not be refuted nor realised)
            self.assumed.append(cond)
            self.pc.append(cond)
            self.cache.clear()
            self.cache[key] = True
            return True
        if rneg['verdict'] == 'unknown' or rpos['verdict'] == 'unknown':
            self.cache[key] = None
            raise Inconclusive(f"branch decision undecided ({rpos['verdict']}/{rneg['verdict']})")
        # both feasible
        if not self.fork:
            raise Inconclusive("undecided branch in a non-forking harness")
        i = len(self.log)
        if i < len(self.prefix):
            choice = self.prefix[i]
        else:
            choice = True
            self.open.append(i)
        self.log.append(choice)
        self.forks += 1
        self.pc.append(cond if choice else tm.bnot(cond))
        self.cache.clear()
        self.cache[key] = choice
        return choice


_CTX = [Ctx()]


def ctx():
    return _CTX[-1]


class use_ctx:
    def __init__(self, c):
        self.c = c

    def __enter__(self):
        _CTX.append(self.c)
        return self.c

    def __exit__(self, *a):
        _CTX.pop()


def explore(run, pre=(), max_paths=5000, **kw):
    """Depth-first exhaustive exploration: run(ctx) is re-executed once per feasible path.
    Yields (ctx, result) per completed path.  Raises Inconclusive at the path cap."""
    pending = [[]]
    n = 0
    while pending:
        prefix = pending.pop()
        c = Ctx(pre=pre, prefix=prefix, **kw)
        with use_ctx(c):
            res = run(c)
        n += 1
        for i in c.open:
            pending.append(c.log[:i] + [not c.log[i]])
        yield c, res
        if n >= max_paths and pending:
            raise Inconclusive(f"path cap {max_paths} reached")


# --------------------------------------------------------------------- SymBool
class SymBool:
    __slots__ = ('t',)

    def __init__(self, t):
        self.t = t

    def __bool__(self):
        return ctx().decide(self.t)

    def __and__(self, o):
        return SymBool(tm.band([self.t, _tb(o)]))

    __rand__ = __and__

    def __or__(self, o):
        return SymBool(tm.bor([self.t, _tb(o)]))

    __ror__ = __or__

    def __invert__(self):
        return SymBool(tm.bnot(self.t))

    def __repr__(self):
        return f"SymBool({self.t!r})"


def _tb(o):
    if isinstance(o, SymBool):
        return o.t
    return tm.TRUE if bool(o) else tm.FALSE


# --------------------------------------------------------------------- SymReal
def _is_num(o):
    return isinstance(o, (numbers.Real, Fraction, np.floating, np.integer)) and not isinstance(o, bool) \
        or isinstance(o, (bool, np.bool_))


def _t(o):
    """term of a SymReal or a concrete number; None if o is something else."""
    if isinstance(o, SymReal):
        return o.t
    if _is_num(o):
        return tm.const(o)
    return None


class SymReal:
    __slots__ = ('t',)

    def __init__(self, t):
        self.t = t

    # arithmetic ------------------------------------------------------------
    def __add__(self, o):
        b = _t(o)
        if b is None:
            return NotImplemented
        return SymReal(tm.add(self.t, b))

    __radd__ = __add__

    def __sub__(self, o):
        b = _t(o)
        if b is None:
            return NotImplemented
        return SymReal(tm.sub(self.t, b))

    def __rsub__(self, o):
        b = _t(o)
        if b is None:
            return NotImplemented
        return SymReal(tm.sub(b, self.t))

    def __mul__(self, o):
        b = _t(o)
        if b is None:
            if isinstance(o, complex):
                return SymComplex(self * o.real, self * o.imag)
            return NotImplemented
        return SymReal(tm.mul(self.t, b))

    __rmul__ = __mul__

    def __truediv__(self, o):
        b = _t(o)
        if b is None:
            return NotImplemented
        return SymReal(tm.div(self.t, b))

    def __rtruediv__(self, o):
        b = _t(o)
        if b is None:
            return NotImplemented
        return SymReal(tm.div(b, self.t))

    def __neg__(self):
        return SymReal(tm.neg(self.t))

    def __pos__(self):
        return self

    def __abs__(self):
        return SymReal(tm.tabs(self.t))

    def __pow__(self, p):
        if isinstance(p, SymReal):
            if p.t.op != 'c':
                return SymReal(tm.exp(tm.mul(p.t, tm.log(self.t))))      # x ** p = exp(p log x), x > 0
            p = p.t.val
        return SymReal(tm.rpow(self.t, tm.rationalise(p)))

    def sinh(self):
        e = tm.exp(self.t)
        return SymReal(tm.scale(tm.sub(e, tm.recip(e)), Fraction(1, 2)))

    def cosh(self):
        e = tm.exp(self.t)
        return SymReal(tm.scale(tm.add(e, tm.recip(e)), Fraction(1, 2)))

    def __rpow__(self, b):
        raise TypeError("symbolic exponent")

    # numpy object-dtype ufunc hooks ----------------------------------------
    def sqrt(self):
        return SymReal(tm.sqrt(self.t))

    def log(self):
        return SymReal(tm.log(self.t))

    def exp(self):
        return SymReal(tm.exp(self.t))

    def conjugate(self):
        return self

    # transcendental functions: uninterpreted atoms (harnesses that need their algebra add axioms)
    def arccos(self):
        return SymReal(tm.fn('arccos', [self.t]))

    def sin(self):
        return SymReal(tm.fn('sin', [self.t]))

    def cos(self):
        return SymReal(tm.fn('cos', [self.t]))

    @property
    def real(self):
        return self

    @property
    def imag(self):
        return 0.0

    # comparisons -----------------------------------------------------------
    def _cmp(self, o, f):
        b = _t(o)
        if b is None:
            return NotImplemented
        return SymBool(f(self.t, b))

    def __lt__(self, o):
        return self._cmp(o, tm.lt)

    def __le__(self, o):
        return self._cmp(o, tm.le)

    def __gt__(self, o):
        return self._cmp(o, lambda a, b: tm.lt(b, a))

    def __ge__(self, o):
        return self._cmp(o, lambda a, b: tm.le(b, a))

    def __eq__(self, o):
        return self._cmp(o, tm.eq)

    def __ne__(self, o):
        return self._cmp(o, tm.ne)

    def __hash__(self):
        return self.t.id

    def __bool__(self):
        raise TypeError("truth value of a SymReal requested")

    def __int__(self):
        """int(x) truncates toward zero: a fresh symbolic integer tied to x on this path"""
        from .symint import SInt, SIntInt
        c = ctx()
        n = getattr(c, '_trunc_n', 0)
        c._trunc_n = n + 1
        i = SInt.var(f'__tr{n}')
        x = self.t
        one = tm.ONE
        c.pc.append(tm.bor([tm.band([tm.le(tm.ZERO, x), tm.le(i.t, x), tm.lt(x, tm.add(i.t, one))]),
                            tm.band([tm.lt(x, tm.ZERO), tm.lt(tm.sub(i.t, one), x), tm.le(x, i.t)])]))
        c.cache.clear()
        return SIntInt(i)

    def __float__(self):
        if self.t.op == 'c':
            return float(self.t.val)
        raise TypeError("float() of a symbolic real")

    def __format__(self, spec):
        return "<sym>"

    def __repr__(self):
        if self.t.op == 'c':
            return f"S({self.t.val})"
        if self.t.op == 'v':
            return f"S({self.t.val})"
        return f"S(#{self.t.id})"


def sym(name):
    return SymReal(tm.var(name))


def symarray(prefix, shape, grid=(1, 1, 1), symmetric=False):
    """Object array of fresh variables named prefix_i_j...; trailing grid dims are 1x1x1."""
    shape = tuple(shape)
    out = np.empty(shape + tuple(grid), dtype=object)
    for idx in np.ndindex(*shape):
        key = idx
        if symmetric and len(idx) == 2 and idx[0] > idx[1]:
            key = (idx[1], idx[0])
        for g in np.ndindex(*grid):
            gs = '' if all(n == 1 for n in grid) else '_g' + ''.join(map(str, g))
            out[idx + g] = sym(prefix + ''.join(map(str, key)) + gs)
    return out


def term_of(x):
    """term of a SymReal / number (for obligations)."""
    t = _t(x)
    if t is None:
        raise TypeError(f"not a real-valued symbolic element: {type(x)}")
    return t


# --------------------------------------------------------------------- SymComplex
class SymComplex:
    """re + i im with re, im any real-like element (SymReal, Jet, number)."""
    __slots__ = ('re', 'im')

    def __init__(self, re, im):
        self.re = re
        self.im = im

    @staticmethod
    def _parts(o):
        if isinstance(o, SymComplex):
            return o.re, o.im
        if isinstance(o, (complex, np.complexfloating)):
            return o.real, o.imag
        if isinstance(o, np.ndarray):
            return None
        return o, 0

    def __add__(self, o):
        p = self._parts(o)
        if p is None:
            return NotImplemented
        return SymComplex(self.re + p[0], self.im + p[1])

    __radd__ = __add__

    def __sub__(self, o):
        p = self._parts(o)
        if p is None:
            return NotImplemented
        return SymComplex(self.re - p[0], self.im - p[1])

    def __rsub__(self, o):
        p = self._parts(o)
        if p is None:
            return NotImplemented
        return SymComplex(p[0] - self.re, p[1] - self.im)

    def __mul__(self, o):
        p = self._parts(o)
        if p is None:
            return NotImplemented
        a, b = self.re, self.im
        c, d = p
        if isinstance(d, (int, float)) and d == 0:
            return SymComplex(a * c, b * c)
        return SymComplex(a * c - b * d, a * d + b * c)

    __rmul__ = __mul__

    def __truediv__(self, o):
        p = self._parts(o)
        if p is None:
            return NotImplemented
        c, d = p
        if isinstance(d, (int, float)) and d == 0:
            return SymComplex(self.re / c, self.im / c)
        den = c * c + d * d
        a, b = self.re, self.im
        return SymComplex((a * c + b * d) / den, (b * c - a * d) / den)

    def __neg__(self):
        return SymComplex(-self.re, -self.im)

    def __pow__(self, n):
        n = int(n)
        if n < 0:
            raise TypeError("negative power of SymComplex")
        out = SymComplex(1, 0)
        for _ in range(n):
            out = out * self
        return out

    def conjugate(self):
        return SymComplex(self.re, -self.im)

    @property
    def real(self):
        return self.re

    @property
    def imag(self):
        return self.im

    def __format__(self, spec):
        return "<symc>"

    def __repr__(self):
        return f"SC({self.re!r}, {self.im!r})"
