"""C05 - spatial curvature, covariant / Lie derivatives, divergence, curl (continuum limit on
free 3D jets), spacetime covariant derivative of vectors (4D jets), BSSNOK split."""
import itertools
import random
from fractions import Fraction as F

import numpy as np

from symx import term as tm, oracle
from symx.sym import Ctx, use_ctx, sym, SymReal
from symx.jet import Jet, jetarray
from symx.npproxy import patched
from symx.harness import Ob, FuncTrace, JetRun, source_digest, eval_terms, float_field as _float_field
from . import gr
from .common import process_jet, vacuity, witness_sat, load_calib, save_calib

PID = 'C05'
FILES = ['src/aurel/core.py', 'src/aurel/finitedifference.py', 'src/aurel/maths.py']


class Setup3:
    """Free 3D jets: metric (order 2), shift (order 2), lapse, test fields (order 1)."""

    def __init__(self, order=2):
        self.gam = oracle.arr((3, 3))
        for i in range(3):
            for j in range(i, 3):
                self.gam[i, j] = self.gam[j, i] = Jet.fresh(f'g{i}{j}', 3, order)
        self.beta = np.array([Jet.fresh(f'b{i}', 3, order) for i in range(3)], dtype=object)
        self.alpha = Jet.fresh('al', 3, order)
        self.dtbeta = np.array([Jet.fresh(f'dtb{i}', 3, 0) for i in range(3)], dtype=object)
        self.f0 = Jet.fresh('f', 3, 1)
        self.v = np.array([Jet.fresh(f'v{i}', 3, 1) for i in range(3)], dtype=object)
        self.t = oracle.arr((3, 3))
        for i in range(3):
            for j in range(3):
                self.t[i, j] = Jet.fresh(f't{i}{j}', 3, 1)
        self.v4 = np.array([Jet.fresh(f'w{i}', 3, 1) for i in range(4)], dtype=object)
        self.weight = sym('wgt')
        gv = [[self.gam[i, j].c[()] for j in range(3)] for i in range(3)]
        self.pre = (oracle.spd_preconditions(gv) + [tm.lt(tm.ZERO, self.alpha.c[()])]
                    + [tm.ne(self.weight.t, tm.ZERO)])
        inputs = dict(gammadown3=gr.grid(self.gam), betaup3=gr.grid(self.beta),
                      alpha=gr.grid(self.alpha), dtbetaup3=gr.grid(self.dtbeta))
        self.run = JetRun(3, inputs, self.pre)
        # oracle geometry
        self.gi = oracle.inverse(self.gam)
        self.G = oracle.christoffel(self.gam, self.gi)
        self.Ruddd = oracle.riemann_uddd(self.G)
        self.g0 = oracle.truncate(self.gam, 0)
        self.gi0 = oracle.truncate(self.gi, 0)
        self.Rdown = oracle.lower_first(self.Ruddd, self.g0)
        self.Ric = oracle.ricci(self.Ruddd)
        self.RicS = oracle.trace(self.gi0, self.Ric)

    def env_metric_values(self, which=0):
        return {self.gam[i, j].c[()].val: F(v) for (i, j), v in gr.DESIGNED_GAMMA[which].items()}

    def sampler(self):
        names = []
        for J in ([self.alpha, self.f0] + list(self.beta) + list(self.dtbeta) + list(self.v)
                  + list(self.v4) + [self.t[i, j] for i in range(3) for j in range(3)]
                  + [self.gam[i, j] for i in range(3) for j in range(i, 3)]):
            names += [t.val for t in J.c.values()]

        def f(rng):
            env = {n: F(rng.choice([x for x in range(-8, 9) if x]), 8) for n in names}
            env.update(self.env_metric_values(rng.randrange(2)))
            env[self.alpha.c[()].val] = F(rng.randint(4, 16), 8)
            env['wgt'] = F(rng.choice([-5, -2, 1, 3, 7]), 6)
            return env
        return f


def D(x, k):
    return oracle.dJ(x, k)


def covd_oracle(S, f, idx):
    """D_c f^{a..}_{b..} from the definition; returns array indexed [c, ...]."""
    G = oracle.truncate(S.G, min(1, 1))
    G = S.G
    rank = len(idx)
    shape = (3,) * (rank + 1)
    out = oracle.arr(shape)
    for c in range(3):
        for comp in itertools.product(range(3), repeat=rank):
            e = f[comp] if rank else f
            s = D(e, c)
            for pos, ud in enumerate(idx):
                for d in range(3):
                    comp2 = list(comp)
                    comp2[pos] = d
                    fe = f[tuple(comp2)]
                    if ud == 'u':
                        s = s + G[comp[pos], c, d] * fe
                    else:
                        s = s - G[d, c, comp[pos]] * fe
            out[(c,) + comp] = s
    return out


def lie_oracle(S, f, idx, weight, st=False):
    """Lie derivative along the shift of a spatial tensor (idx in '', u, d, uu, ud, du, dd)."""
    b = S.beta
    rank = len(idx)
    divb = sum(D(b[k], k) for k in range(3))
    out = oracle.arr((3,) * rank)
    for comp in itertools.product(range(3), repeat=rank):
        e = f[comp] if rank else f
        s = sum(b[k] * D(e, k) for k in range(3))
        for pos, ud in enumerate(idx):
            for k in range(3):
                comp2 = list(comp)
                comp2[pos] = k
                fe = f[tuple(comp2)]
                if ud == 'u':
                    s = s - fe * D(b[comp[pos]], k)
                else:
                    s = s + fe * D(b[k], comp[pos])
        s = s + weight * divb * e
        if rank:
            out[comp] = s
        else:
            return s
    return out


def T0(x):
    return x.trunc(0) if isinstance(x, Jet) else x


def build(tier):
    blocks = []
    with patched():
        S = Setup3()
        c = Ctx(pre=S.pre, fork=False)    # `if weight != 0` is decided from the precondition
        obs = []
        with use_ctx(c):
            rel = S.run.symbolic_rel()
            # --- curvature --------------------------------------------------------------
            Gm = rel['s_Gamma_udd3']
            for a, b, d in itertools.product(range(3), repeat=3):
                obs.append(Ob(f's_Gamma_udd3[{a},{b},{d}]', T0(Gm[a, b, d, 0, 0, 0]), T0(S.G[a, b, d]),
                              S.pre, get=lambda r, a=a, b=b, d=d: r['s_Gamma_udd3'][a, b, d],
                              group='s_Gamma_udd3'))
            Rb = rel['s_Ricci_down3']          # direct branch (s_Riemann_down3 not cached)
            for a in range(3):
                for b in range(3):
                    obs.append(Ob(f's_Ricci_down3(direct)[{a},{b}]', Rb[a, b, 0, 0, 0], S.Ric[a, b],
                                  S.pre, get=lambda r, a=a, b=b: r['s_Ricci_down3'][a, b],
                                  group='s_Ricci_down3 (direct branch)'))
            Ru = rel['s_Riemann_uddd3']
            Rd = rel['s_Riemann_down3']
            comps = list(itertools.product(range(3), repeat=4))
            if tier == 'quick':
                comps = [x for x in comps if x[2] < x[3]][:27] + [(0, 1, 1, 0), (1, 0, 0, 1), (2, 2, 0, 1)]
            for a, b, cc, d in comps:
                obs.append(Ob(f's_Riemann_uddd3[{a},{b},{cc},{d}]', Ru[a, b, cc, d, 0, 0, 0],
                              S.Ruddd[a, b, cc, d], S.pre,
                              get=lambda r, a=a, b=b, cc=cc, d=d: r['s_Riemann_uddd3'][a, b, cc, d],
                              group='s_Riemann_uddd3'))
                obs.append(Ob(f's_Riemann_down3[{a},{b},{cc},{d}]', Rd[a, b, cc, d, 0, 0, 0],
                              S.Rdown[a, b, cc, d], S.pre,
                              get=lambda r, a=a, b=b, cc=cc, d=d: r['s_Riemann_down3'][a, b, cc, d],
                              group='s_Riemann_down3'))
            del rel.data['s_Ricci_down3']
            Rb2 = rel['s_Ricci_down3']         # contraction branch (Riemann cached)
            for a in range(3):
                for b in range(3):
                    obs.append(Ob(f's_Ricci_down3(contraction)[{a},{b}]', Rb2[a, b, 0, 0, 0],
                                  S.Ric[a, b], S.pre, group='s_Ricci_down3 (contraction branch)'))
            obs.append(Ob('s_RicciS', rel['s_RicciS'][0, 0, 0], S.RicS, S.pre,
                          get=lambda r: r['s_RicciS'], group='s_RicciS'))
            # --- covariant derivative, all index patterns ---------------------------------
            fields = {'': S.f0, 'u': S.v, 'd': S.v, 'uu': S.t, 'ud': S.t, 'du': S.t, 'dd': S.t}
            for idx, f in fields.items():
                got = rel.s_covd(gr.grid(f), idx)
                want = covd_oracle(S, f, idx)
                for comp in itertools.product(range(3), repeat=len(idx) + 1):
                    obs.append(Ob(f"s_covd('{idx}')[{','.join(map(str, comp))}]",
                                  T0(got[comp + (0, 0, 0)]), T0(want[comp]), S.pre,
                                  get=lambda r, fg=gr.grid(f), idx=idx, comp=comp: r.s_covd(_float_field(r, fg), idx)[comp],
                                  group=f"s_covd('{idx}')"))
            # metric compatibility and commutation with raising/lowering
            cg = rel.s_covd(rel['gammadown3'], 'dd')
            cgu = rel.s_covd(rel['gammaup3'], 'uu')
            for comp in itertools.product(range(3), repeat=3):
                obs.append(Ob(f"D gammadown3 == 0 [{comp}]", T0(cg[comp + (0, 0, 0)]), tm.ZERO, S.pre,
                              group='metric compatibility D_c gamma_ab = 0'))
                obs.append(Ob(f"D gammaup3 == 0 [{comp}]", T0(cgu[comp + (0, 0, 0)]), tm.ZERO, S.pre,
                              group='metric compatibility D_c gamma^ab = 0'))
            vdown = np.einsum('ab...,b...->a...', rel['gammadown3'], gr.grid(S.v))
            lhs = rel.s_covd(vdown, 'd')
            rhs = np.einsum('ab...,cb...->ca...', rel['gammadown3'], rel.s_covd(gr.grid(S.v), 'u'))
            for comp in itertools.product(range(3), repeat=2):
                obs.append(Ob(f"lowering commutes with s_covd [{comp}]", T0(lhs[comp + (0, 0, 0)]),
                              T0(rhs[comp + (0, 0, 0)]), S.pre, group='lowering commutes with s_covd'))
            # --- divergence ------------------------------------------------------------------
            gi0 = S.gi0
            cu = covd_oracle(S, S.v, 'u')
            cd = covd_oracle(S, S.v, 'd')
            obs.append(Ob("s_div('u')", T0(rel.s_div(gr.grid(S.v), 'u')[0, 0, 0]),
                          T0(sum(cu[a, a] for a in range(3))), S.pre, group='s_div'))
            obs.append(Ob("s_div('d')", T0(rel.s_div(gr.grid(S.v), 'd')[0, 0, 0]),
                          T0(sum(gi0[a, b] * T0(cd[a, b]) for a in range(3) for b in range(3))),
                          S.pre, group='s_div'))
            for idx in ('uu', 'ud', 'du', 'dd'):
                cv = covd_oracle(S, S.t, idx)
                got = rel.s_div(gr.grid(S.t), idx)
                for b in range(3):
                    if idx in ('uu', 'ud'):
                        want = sum(T0(cv[a, a, b]) for a in range(3))
                    elif idx == 'du':
                        want = sum(T0(cv[a, b, a]) for a in range(3))
                    else:
                        want = sum(gi0[a, e] * T0(cv[a, e, b]) for a in range(3) for e in range(3))
                    obs.append(Ob(f"s_div('{idx}')[{b}]", T0(got[b, 0, 0, 0]), want, S.pre, group='s_div',
                                  get=lambda r, fg=gr.grid(S.t), idx=idx, b=b: r.s_div(_float_field(r, fg), idx)[b]))
            # --- Lie derivative along the shift ------------------------------------------------
            for wname, w in (('w', S.weight), ('0', 0)):
                for idx, f in fields.items():
                    code_idx = '' if idx == '' else 's_' + idx
                    got = rel.Lie_beta(gr.grid(f), code_idx, weight=w)
                    want = lie_oracle(S, f, idx, w)
                    if idx == '':
                        obs.append(Ob(f"Lie_beta('',weight={wname})", T0(got[0, 0, 0]), T0(want), S.pre,
                                      group=f"Lie_beta weight={wname}"))
                        continue
                    for comp in itertools.product(range(3), repeat=len(idx)):
                        obs.append(Ob(f"Lie_beta('{code_idx}',weight={wname})[{comp}]",
                                      T0(got[comp + (0, 0, 0)]), T0(want[comp]), S.pre,
                                      get=lambda r, fg=gr.grid(f), ci=code_idx, w=w, comp=comp: r.Lie_beta(
                                          _float_field(r, fg), ci, weight=(float(eval_terms([w.t], r._symx['model'])[0]) if isinstance(w, SymReal) else w))[comp],
                                      group=f"Lie_beta weight={wname}"))
            # spacetime vectors: beta^t = 0
            b, dtb, V = S.beta, S.dtbeta, S.v4
            gotu = rel.Lie_beta(gr.grid(V), 'st_u')
            gotd = rel.Lie_beta(gr.grid(V), 'st_d')
            wantu = [sum(b[k] * D(V[0], k) for k in range(3))]
            wantd = [sum(b[k] * D(V[0], k) for k in range(3)) + sum(V[k + 1] * dtb[k] for k in range(3))]
            for i in range(3):
                wantu.append(sum(b[k] * D(V[i + 1], k) - V[k + 1] * D(b[i], k) for k in range(3))
                             - V[0] * dtb[i])
                wantd.append(sum(b[k] * D(V[i + 1], k) + V[k + 1] * D(b[k], i) for k in range(3)))
            for m in range(4):
                obs.append(Ob(f"Lie_beta('st_u')[{m}]", T0(gotu[m, 0, 0, 0]), T0(wantu[m]), S.pre,
                              get=lambda r, m=m, Vg=gr.grid(V): r.Lie_beta(_float_field(r, Vg), 'st_u')[m], group='Lie_beta st_u/st_d'))
                obs.append(Ob(f"Lie_beta('st_d')[{m}]", T0(gotd[m, 0, 0, 0]), T0(wantd[m]), S.pre,
                              get=lambda r, m=m, Vg=gr.grid(V): r.Lie_beta(_float_field(r, Vg), 'st_d')[m], group='Lie_beta st_u/st_d'))
            # the same with the shift and its time derivative supplied through components, the x component of d_t beta left
            # to its default (zero): every way of supplying d_t beta must reach the Lie derivative
            comp_inputs = dict(gammadown3=gr.grid(S.gam), alpha=gr.grid(S.alpha), betax=gr.grid(b[0]), betay=gr.grid(b[1]),
                               betaz=gr.grid(b[2]), dtbetay=gr.grid(dtb[1]), dtbetaz=gr.grid(dtb[2]))
            runc = JetRun(3, comp_inputs, S.pre)
            relc = runc.symbolic_rel()
            gotu = relc.Lie_beta(gr.grid(V), 'st_u')
            gotd = relc.Lie_beta(gr.grid(V), 'st_d')
            dtc = [0, dtb[1], dtb[2]]
            wantu = [sum(b[k] * D(V[0], k) for k in range(3))]
            wantd = [sum(b[k] * D(V[0], k) for k in range(3)) + sum(V[k + 1] * dtc[k] for k in range(3))]
            for i in range(3):
                wantu.append(sum(b[k] * D(V[i + 1], k) - V[k + 1] * D(b[i], k) for k in range(3)) - V[0] * dtc[i])
                wantd.append(sum(b[k] * D(V[i + 1], k) + V[k + 1] * D(b[k], i) for k in range(3)))
            for m in range(4):
                obs.append(Ob(f"Lie_beta('st_u')[{m}] (d_t beta through dtbetay, dtbetaz only)", T0(gotu[m, 0, 0, 0]), T0(wantu[m]), S.pre,
                              get=lambda r, m=m, Vg=gr.grid(V): r.Lie_beta(_float_field(r, Vg), 'st_u')[m], meta=dict(run=runc, fresh_rel=True),
                              group='Lie_beta st_u/st_d, component inputs'))
                obs.append(Ob(f"Lie_beta('st_d')[{m}] (d_t beta through dtbetay, dtbetaz only)", T0(gotd[m, 0, 0, 0]), T0(wantd[m]), S.pre,
                              get=lambda r, m=m, Vg=gr.grid(V): r.Lie_beta(_float_field(r, Vg), 'st_d')[m], meta=dict(run=runc, fresh_rel=True),
                              group='Lie_beta st_u/st_d, component inputs'))
            # --- curl -------------------------------------------------------------------------------
            ts = oracle.arr((3, 3))
            for i in range(3):
                for j in range(3):
                    ts[i, j] = S.t[min(i, j), max(i, j)]
            got = rel.s_curl(gr.grid(ts), 'dd')
            cv = covd_oracle(S, ts, 'dd')
            sq = oracle.det(S.g0).sqrt()
            eps = oracle.arr((3, 3, 3))
            for p in itertools.product(range(3), repeat=3):
                eps[p] = (oracle.perm_sign(p) * sq) if len(set(p)) == 3 else 0
            epsuud = np.einsum('ce,df,efa->cda', gi0, gi0, eps)
            raw = np.einsum('cda,cbd->ab', epsuud, oracle.truncate(cv, 0))
            for a in range(3):
                for bb in range(3):
                    obs.append(Ob(f"s_curl[{a},{bb}]", T0(got[a, bb, 0, 0, 0]),
                                  T0((raw[a, bb] + raw[bb, a]) * 0.5), S.pre, group='s_curl',
                                  get=lambda r, tg=gr.grid(ts), a=a, bb=bb: r.s_curl(_float_field(r, tg), 'dd')[a, bb]))
        blocks.append(dict(name='spatial', setup=S, run=S.run, obs=obs, ctx=c))

        # ---- BSSNOK split (root atom psi = det^(1/12): designed slices) ---------------------
        B = Setup3()
        cb = Ctx(pre=B.pre, fork=False)
        obsb = []
        with use_ctx(cb):
            relb = B.run.symbolic_rel()
            psi = oracle.det(B.gam) ** F(1, 12)
            gt = oracle.arr((3, 3))
            for i in range(3):
                for j in range(3):
                    gt[i, j] = psi ** (-4) * B.gam[i, j]
            gti = oracle.inverse(gt)
            Gt = oracle.christoffel(gt, gti)
            Gb = relb['s_Gamma_udd3_bssnok']
            for a, bb, d in itertools.product(range(3), repeat=3):
                if tier == 'quick' and (a + bb + d) % 2:
                    continue
                obsb.append(Ob(f's_Gamma_udd3_bssnok[{a},{bb},{d}]', T0(Gb[a, bb, d, 0, 0, 0]),
                               T0(Gt[a, bb, d]), B.pre, group='s_Gamma_udd3_bssnok == Christoffel(psi^-4 gamma)'))
            Gc = relb['s_Gamma_bssnok']
            for i in range(3):
                want = -sum(D(gti[i, j], j) for j in range(3))
                obsb.append(Ob(f's_Gamma_bssnok[{i}]', T0(Gc[i, 0, 0, 0]), T0(want), B.pre,
                               group='s_Gamma_bssnok == -d_j gammatilde^ij'))
            Rsum = relb['s_Ricci_down3_bssnok'] + relb['s_Ricci_down3_phi']
            for a in range(3):
                for bb in range(a, 3):
                    obsb.append(Ob(f'Ricci_bssnok+Ricci_phi[{a},{bb}]', Rsum[a, bb, 0, 0, 0], B.Ric[a, bb],
                                   B.pre, group='s_Ricci_down3_bssnok + s_Ricci_down3_phi == s_Ricci_down3'))
            gdt = relb['gammadown3_bssnok']
            obsb.append(Ob('det gammatilde == 1', oracle.det(oracle.truncate(gr.ungrid(gdt), 0)), tm.ONE,
                           B.pre, group='conformal metric has unit determinant'))
        blocks.append(dict(name='bssnok', setup=B, run=B.run, obs=obsb, ctx=cb, sliced=True))

        # ---- spacetime covariant derivative of scalars and vectors (4D jets) -----------------
        S4 = gr.Setup(order=2, vacuum=True, matter=None, Lambda=False)
        st = S4.st
        V = np.array([Jet.fresh(f'V{i}', 4, 1) for i in range(4)], dtype=object)
        phi = Jet.fresh('phi', 4, 1)
        c4 = Ctx(pre=S4.pre, fork=False)
        obs4 = []
        with use_ctx(c4):
            rel4 = S4.run.symbolic_rel()
            G4 = st.Gamma
            dtV = np.array([v.diff(0) for v in V], dtype=object)
            Vs = np.array([v.trunc(1) for v in V], dtype=object)
            got_s = rel4.st_covd(gr.grid(phi), gr.grid(phi.diff(0)), '')
            for cidx in range(4):
                obs4.append(Ob(f"st_covd('')[{cidx}]", T0(got_s[cidx, 0, 0, 0]), T0(phi.diff(cidx)),
                               S4.pre, group="st_covd('')"))
            for idx in ('u', 'd'):
                got = rel4.st_covd(gr.grid(Vs), gr.grid(dtV), idx)
                for cidx in range(4):
                    for a in range(4):
                        s = V[a].diff(cidx)
                        for bb in range(4):
                            if idx == 'u':
                                s = s + T0(G4[a, cidx, bb]) * V[bb].trunc(0)
                            else:
                                s = s - T0(G4[bb, cidx, a]) * V[bb].trunc(0)
                        obs4.append(Ob(f"st_covd('{idx}')[{cidx},{a}]", T0(got[cidx, a, 0, 0, 0]), T0(s),
                                       S4.pre, group=f"st_covd('{idx}')", meta=dict(key=f"st_covd('{idx}')")))
        base = S4.sampler()
        extra = [t.val for J in list(V) + [phi] for t in J.c.values()]

        def samp4(rng, base=base, extra=extra):
            env = base(rng)
            env.update({n: F(rng.choice([x for x in range(-8, 9) if x]), 8) for n in extra})
            return env
        blocks.append(dict(name='st_covd', setup=S4, run=None, obs=obs4, ctx=c4, sampler=samp4))
    return blocks


def main(report, tier, seed, workers, calibrate=False):
    report.bounds = dict(jet_order='metric/shift 2, test fields 1', jet_dim='3 (4 for st_covd)',
                         grid='1x1x1 (continuum limit)', index_patterns=['', 'u', 'd', 'uu', 'ud', 'du', 'dd',
                                                                         's_*', 'st_u', 'st_d'],
                         weight='symbolic non-zero weight and weight 0',
                         outside=['float round-off', 'consistency=>convergence composition argument',
                                  'error branches for unsupported indexing strings'])
    report.assumptions += ['spatial metric positive definite, lapse > 0',
                           'floats are reals; literal policy DESIGN 1.1',
                           'BSSNOK split: decided on slices where the metric value at the point is a designed '
                           'rational matrix with det = 2^12 (psi = 2), all derivatives free']
    report.stubs += ['aurel.*.np -> symx.npproxy', 'FiniteDifference.d3x/d3y/d3z -> exact jet differentiation']
    calib = load_calib(PID)
    with FuncTrace() as ft:
        blocks = build(tier)
    report.functions |= ft.seen
    report.extra['source_sha1'] = source_digest(FILES)
    all_obs = []
    rungs_ = None
    for blk in blocks:
        S = blk['setup']
        vacuity(report, S.pre, name=f"{blk['name']}:pre")
        e0, e1 = S.env_metric_values(0), S.env_metric_values(1)
        sampler = blk.get('sampler') or S.sampler()
        rungs = [dict(name='full', envs=[None], timeout=30 if tier == 'quick' else 200),
                 dict(name='slices:metric-value-fixed', envs=[e0, e1], timeout=300 if tier == 'quick' else 900)]
        if blk.get('sliced'):
            rungs = rungs[1:]
        process_jet(report, blk['run'], blk['obs'], rungs, sampler=sampler, workers=workers,
                    calib=calib if not blk.get('sliced') else None, seed=seed, verbose=bool(calibrate))
        report.extra.setdefault('branch_decisions', {})[blk['name']] = blk['ctx'].decision_queries
        if not blk.get('sliced'):
            all_obs += blk['obs']
            rungs_ = rungs
    if calibrate:
        save_calib(PID, all_obs, rungs_)
    pick = [ob for ob in blocks[0]['obs'] if ob.name == 's_Gamma_udd3[0,1,2]'][0]
    witness_sat(report, pick, 's_Gamma_udd3[0,1,2] + 1')


def replay_payload(payload):
    from .common import replay_blocks
    return replay_blocks(build, payload)
