"""C16 - the grid object describes exactly the grid the parameters specify.

(a) point count / positions: the coordinate-array expressions are lifted from FiniteDifference.__init__'s
    AST into IEEE-754 Float64 terms (QF_FP); for every listed N the solver is asked for finite (min, d)
    with length != N or x_i != fl(min + fl(i*d)).
(c) edge trimming helpers on arrays of symbolic length (ShapeArr, LIA).
(d) Cartesian <-> spherical round trip over the reals with arccos/sin/cos as atoms with their algebraic rules.
(b,e) shapes / extents of every derived array: structural consequences, executed on concrete parameter sets
    including spacings such as 0.1, 0.3, 1/3 (reported as concrete executions)."""
import ast
import inspect
import itertools
import math
import textwrap

import numpy as np

from symx import term as tm, solver
from symx.sym import Ctx, use_ctx, sym, SymReal, SymBool, explore, Inconclusive
from symx.symint import SInt
from symx.shapearr import ShapeArr, S
from symx.harness import FuncTrace, source_digest

PID = 'C16'
FILES = ['src/aurel/finitedifference.py', 'src/aurel/core.py', 'src/aurel/time.py']
F64 = "(_ FloatingPoint 11 53)"


# ------------------------------------------------------------------------------ (a) QF_FP
def coordinate_expressions():
    """AST of the three coordinate-array assignments in FiniteDifference.__init__"""
    from aurel.finitedifference import FiniteDifference
    src = textwrap.dedent(inspect.getsource(FiniteDifference.__init__))
    tree = ast.parse(src)
    out = {}
    for node in ast.walk(tree):
        if isinstance(node, ast.Assign) and len(node.targets) == 1:
            t = ast.unparse(node.targets[0])
            if t in ('self.xarray', 'self.yarray', 'self.zarray'):
                out[t[5]] = node.value
    return out


def fpconst(x):
    x = float(x)
    from fractions import Fraction
    fr = Fraction(x)
    lit = f"(/ {abs(fr.numerator)}.0 {fr.denominator}.0)"
    if x < 0:
        lit = f"(- {lit})"
    return f"((_ to_fp 11 53) RNE {lit})"


class ArrayModel:
    """symbolic description of a 1-D coordinate array: ('arange3', start, stop, step) or ('affine', min, d, N)"""


def lift(node, ax):
    """-> dict(kind=..., ...) with FP SMT strings for scalars; supports the two shapes of code
    np.arange(start, stop, step)   and   start + np.arange(N) * step.
    Every self.param[...] entry is its own variable, so using another axis' parameter is visible."""
    import re as _re

    def pname(s):
        m = _re.fullmatch(r"self\.param\['(\w+)'\]", s)
        return m.group(1) if m else None

    def scalar(n):
        s = ast.unparse(n)
        k = pname(s)
        if k is not None:
            return 'Nf_' + k if k.startswith('N') else 'p_' + k
        if isinstance(n, ast.BinOp):
            a, b = scalar(n.left), scalar(n.right)
            op = {ast.Add: 'fp.add', ast.Sub: 'fp.sub', ast.Mult: 'fp.mul', ast.Div: 'fp.div'}[type(n.op)]
            return f"({op} RNE {a} {b})"
        raise ValueError(f"cannot lift {s}")
    if isinstance(node, ast.Call) and ast.unparse(node.func) == 'np.arange' and len(node.args) == 3:
        return dict(kind='arange3', start=scalar(node.args[0]), stop=scalar(node.args[1]), step=scalar(node.args[2]))
    if isinstance(node, ast.BinOp) and isinstance(node.op, ast.Add):
        for base, rest in ((node.left, node.right), (node.right, node.left)):
            if isinstance(rest, ast.BinOp) and isinstance(rest.op, ast.Mult):
                for ar, st in ((rest.left, rest.right), (rest.right, rest.left)):
                    if (isinstance(ar, ast.Call) and ast.unparse(ar.func) == 'np.arange' and len(ar.args) == 1
                            and pname(ast.unparse(ar.args[0])) is not None):
                        return dict(kind='affine', start=scalar(base), step=scalar(st), count=pname(ast.unparse(ar.args[0])))
    raise ValueError(f"unrecognised coordinate expression: {ast.unparse(node)}")


def arange_model_check():
    """differential test of the np.arange length/value model against numpy"""
    rng = np.random.default_rng(0)
    bad = 0
    for _ in range(5000):
        start = float(rng.uniform(-100, 100))
        step = float(rng.choice([0.1, 0.3, 1 / 3, 0.25, 0.7, rng.uniform(1e-3, 5)]))
        n = int(rng.integers(1, 40))
        stop = start + n * step
        a = np.arange(start, stop, step)
        ln = int(math.ceil((stop - start) / step))
        if len(a) != ln:
            bad += 1
            continue
        delta = (start + step) - start
        if len(a) > 2 and not np.array_equal(a, start + np.arange(ln) * delta):
            # numpy fills with start + i*delta; tolerate last-bit differences in the value model only
            if not np.allclose(a, start + np.arange(ln) * delta, rtol=0, atol=abs(start) * 4e-16 + 1e-300):
                bad += 1
    return bad


def fp_queries(report, tier):
    exprs = coordinate_expressions()
    if set(exprs) != {'x', 'y', 'z'}:
        report.harness_errors.append(f"coordinate-array assignments not found in FiniteDifference.__init__: {sorted(exprs)}")
        return
    bad = arange_model_check()
    report.validation['translator_checks'] += 1
    if bad:
        report.validation['translator_failures'] += 1
        report.harness_errors.append(f"np.arange model disagrees with numpy on {bad} samples")
    Ns = [1, 2, 3, 10] if tier == 'quick' else [1, 2, 3, 4, 5, 6, 7, 8, 9, 10, 11, 12, 16, 32, 64, 100, 128]
    for ax, node in exprs.items():
        try:
            m = lift(node, ax)
        except ValueError as e:
            report.harness_errors.append(str(e))
            continue
        for N in Ns:
            name = f"{ax}array N={N}: exactly N points at fl(min + fl(i*d))"
            decl = ''.join(f"(declare-const p_{a}{k} {F64})\n" for a in 'xyz' for k in ('min',)) + \
                ''.join(f"(declare-const p_d{a} {F64})\n" for a in 'xyz')
            rng_ = ''.join(f"(assert (fp.leq {fpconst(-1e4)} p_{a}min))\n(assert (fp.leq p_{a}min {fpconst(1e4)}))\n"
                           f"(assert (fp.leq {fpconst(1e-6)} p_d{a}))\n(assert (fp.leq p_d{a} {fpconst(1e3)}))\n" for a in 'xyz')
            head = (f"(set-logic QF_FP)\n" + decl + ''.join(f"(define-fun Nf_N{a} () {F64} {fpconst(float(N))})\n" for a in 'xyz') + rng_)
            if m['kind'] == 'affine' and m.get('count') != 'N' + ax:
                report.record(name, 'sat', group=f"coordinate arrays ({m['kind']} form)", kind='structure')
                report.violation(f"{ax}array point count", f"{ax}array has np.arange({m.get('count')}) entries instead of N{ax}",
                                 report.write_replay(f"{ax}array_count", dict(count=m.get('count'))))
                continue
            if m['kind'] == 'affine':
                # length is N by construction of np.arange(N); positions are the lifted expression itself:
                # the remaining claim is that the expression IS min + i*d in Float64 arithmetic
                want = "(fp.add RNE pmin (fp.mul RNE ((_ to_fp 11 53) RNE {i}.0) pd))"
                got = m['start'].replace('pmin', 'pmin')
                diffs = []
                for i in sorted({0, 1, N // 2, N - 1}):
                    iv = fpconst(i)
                    e = f"(fp.add RNE {m['start']} (fp.mul RNE {iv} {m['step']}))"
                    w = f"(fp.add RNE p_{ax}min (fp.mul RNE {iv} p_d{ax}))"
                    diffs.append(f"(not (fp.eq {e} {w}))")
                q = head + f"(assert (or {' '.join(diffs)}))\n(check-sat)\n"
            else:
                # np.arange(start, stop, step): length = ceil((stop - start)/step) in Float64
                ln = f"(fp.roundToIntegral RTP (fp.div RNE (fp.sub RNE {m['stop']} {m['start']}) {m['step']}))"
                q = head + f"(assert (not (fp.eq {ln} Nf_N{ax})))\n(check-sat)\n"
            v, vals, dt = solver.run_script(q, timeout_s=60 if tier == 'quick' else 400, backend='z3new', tag='fp16')
            report.record(name, v, round(dt, 2), 'z3new', sha=str(abs(hash(q)) % 10 ** 10), group=f"coordinate arrays ({m['kind']} form)", kind='fp')
            if v == 'sat':
                # replay on the real constructor: find the concrete floats from the model text is awkward (FP literal);
                # use the well-known witness family instead and confirm with numpy
                rp = replay_grid(N)
                if rp['reproduces']:
                    report.violation(f"{ax}array point count", f"{name}: solver found parameters for which the point count or a position differs from min + i*d; "
                                     f"numpy confirms e.g. {rp['witness']}", report.write_replay(f"{ax}array_N{N}", rp))
                else:
                    report.inconc(name, 'FP counterexample not reproduced with the witness family')
            elif v != 'unsat':
                report.inconc(name, 'FP query not settled')


def replay_grid(N):
    from aurel.finitedifference import FiniteDifference
    for mn in (0.0, 0.1, -1.0, 1.0, 0.3):
        for d in (0.1, 0.3, 1 / 3, 0.7, 0.05, 1.1):
            for n in {N, 3, 10}:
                p = {'xmin': mn, 'ymin': mn + 1, 'zmin': mn - 1, 'dx': d, 'dy': 2 * d, 'dz': d / 3, 'Nx': n, 'Ny': n, 'Nz': n}
                fd = FiniteDifference(p, verbose=False)
                ok = (fd.Nx == n and len(fd.xarray) == n and fd.x.shape == (n, n, n)
                      and all(np.array_equal(getattr(fd, a + 'array'), p[a + 'min'] + np.arange(n) * p['d' + a]) for a in 'xyz'))
                if not ok:
                    return dict(reproduces=True, witness=dict(min=mn, d=d, N=n, got=[len(fd.xarray), len(fd.yarray), len(fd.zarray)]))
    return dict(reproduces=False)


# ------------------------------------------------------------------------------ (b, e) structural, concrete
def structural(report):
    from aurel.finitedifference import FiniteDifference
    from aurel.core import AurelCore
    n_ok = 0
    bad = []
    for (nx, ny, nz), mn, d in itertools.product([(3, 4, 5), (10, 7, 8), (16, 16, 16), (33, 5, 9)], [0.0, -0.45, 0.1, 100.0],
                                                 [0.1, 0.3, 1 / 3, 0.25, 0.7, 1e-3]):
        p = {'xmin': mn, 'ymin': mn + 1, 'zmin': mn - 2, 'dx': d, 'dy': 2 * d, 'dz': d / 3, 'Nx': nx, 'Ny': ny, 'Nz': nz}
        fd = FiniteDifference(p, verbose=False)
        shape = (nx, ny, nz)
        ok = ((fd.Nx, fd.Ny, fd.Nz) == shape and fd.x.shape == shape and fd.r.shape == shape and fd.theta.shape == shape
              and fd.cartesian_coords.shape == (3,) + shape and fd.spherical_coords.shape == (3,) + shape
              and fd.xmax == fd.xarray[-1] == mn + (nx - 1) * d and fd.ymax == fd.yarray[-1] and fd.zmax == fd.zarray[-1]
              and np.array_equal(fd.xarray, mn + np.arange(nx) * d))
        rel = AurelCore(fd, verbose=False)
        ok = ok and rel.data_shape == shape and rel['gammadet'].shape == shape and rel.kronecker_delta3().shape == (3, 3) + shape
        if ok:
            n_ok += 1
        else:
            bad.append(dict(shape=shape, min=mn, d=d, got=(fd.Nx, fd.Ny, fd.Nz)))
    report.record(f'derived arrays have the data shape, extents are the last points ({n_ok} parameter sets)',
                  'holds' if not bad else 'sat', group='derived arrays (concrete executions)', kind='concrete', trivial=True)
    report.extra['structural_parameter_sets'] = n_ok + len(bad)
    if bad:
        report.violation('derived array shapes', f"grid object inconsistent with its parameters: {bad[0]}",
                         report.write_replay('structural', dict(bad=bad[:5])))


# ------------------------------------------------------------------------------ (c) trimming helpers
def trimming(report, tier):
    from aurel.finitedifference import FiniteDifference
    p = {'xmin': 0.0, 'ymin': 0.0, 'zmin': 0.0, 'dx': 1.0, 'dy': 1.0, 'dz': 1.0, 'Nx': 20, 'Ny': 20, 'Nz': 20}
    # 3, 7, 10: undocumented orders fall back to the 4th-order scheme; the half-width is that of the scheme in use
    for order in (2, 4, 6, 8, 3, 7, 10):
        fd = FiniteDifference(p, fd_order=order, verbose=False)
        m = int(fd.fd_order) // 2            # stencil half-width of the scheme the object reports and applies
        if fd.mask_len != m or (order in (2, 4, 6, 8) and fd.fd_order != order):
            key = f'mask_len for fd_order={order}'
            report.record(key, 'sat', group='trimming helpers: size attribute', kind='concrete')
            report.violation(key, f"FiniteDifference(fd_order={order}) reports fd_order={fd.fd_order} but mask_len={fd.mask_len}",
                             report.write_replay(key, dict(order=order, fd_order=fd.fd_order, mask_len=fd.mask_len)))
        for fn, k in ((fd.cutoffmask, m), (fd.cutoffmask2, 2 * m)):
            for rank in (1, 2, 3):
                name = f"{fn.__name__} order={order} rank={rank}: removes exactly {k} points per side"
                paths, bad, q = 0, [], 0

                def run(c, rank=rank, fn=fn, k=k):
                    L = [SInt.var(f'L{a}') for a in range(rank)]
                    for x in L:
                        c.pre.append(tm.le(tm.const(2 * k + 1), x.t))
                    a = ShapeArr.chunk('f', L)
                    out = fn(a)
                    probs = []
                    if out is None or len(out.shape) != rank or len(out.bricks) != 1:
                        return ['unexpected result structure']
                    for ax in range(rank):
                        d, s, sa, so = out.bricks[0].axes[ax]
                        if not (c.valid(tm.eq(S(out.shape[ax]).t, (L[ax] - 2 * k).t)) and c.valid(tm.eq(S(so).t, tm.const(k)))
                                and c.valid(tm.eq(S(s).t, (L[ax] - 2 * k).t)) and c.valid(tm.eq(S(d).t, tm.ZERO))):
                            probs.append(f'axis {ax}: not exactly {k} points removed per side')
                    return probs
                try:
                    for c, probs in explore(run, pre=[], backend='inproc', ints=[f'L{a}' for a in range(3)], decide_timeout=5):
                        paths += 1
                        q += c.decision_queries
                        if probs:
                            v, model = c.model()
                            bad.append((probs, {k_: int(x) for k_, x in model.items() if x is not None}))
                except Inconclusive as e:
                    report.inconc(name, str(e))
                report.record(name, 'unsat' if not bad else 'sat', backend='z3py-inproc', sha=f"{paths}p{q}q:{order}{rank}{k}",
                              group='edge trimming helpers (symbolic lengths)')
                for probs, model in bad[:1]:
                    Lv = [model.get(f'L{a}', 2 * k + 1) for a in range(rank)]
                    arr = np.zeros(Lv)
                    got = fn(arr)
                    if got.shape != tuple(x - 2 * k for x in Lv):
                        report.violation(f"{fn.__name__} rank {rank}", f"{name}: shape {arr.shape} -> {got.shape}",
                                         report.write_replay(f"{fn.__name__}_{order}_{rank}", dict(L=Lv, got=list(got.shape))))
                    else:
                        report.harness_errors.append(f"{name}: symbolic problem {probs} not reproduced")


# ------------------------------------------------------------------------------ (d) spherical round trip
def install_trig():
    """arccos / sin / cos on symbolic reals as atoms with their algebraic rules (exact-real claim)"""
    saved = (SymReal.arccos, SymReal.sin, SymReal.cos)

    def arccos(self):
        return SymReal(tm.fn('arccos', [self.t]))

    def split(t):
        """t = +arccos(u), -arccos(u), 0, or -pi  ->  (kind, u)"""
        if t.op == 'c':
            if t.val == 0:
                return 'zero', None
            if abs(float(t.val) + math.pi) < 1e-15:
                return 'minus_pi', None
            if abs(float(t.val) - math.pi) < 1e-15:
                return 'pi', None
        if t.op == 'fn' and t.val == 'arccos':
            return 'plus', t.args[0]
        if t.op == 'sum':
            c0, items = t.val
            if c0 == 0 and len(items) == 1 and t.args[0].op == 'fn' and t.args[0].val == 'arccos' and items[0][1] in (1, -1):
                return ('plus' if items[0][1] == 1 else 'minus'), t.args[0].args[0]
        return None, None

    def cos(self):
        kind, u = split(self.t)
        if kind in ('plus', 'minus'):
            return SymReal(u)
        if kind == 'zero':
            return SymReal(tm.ONE)
        if kind in ('minus_pi', 'pi'):
            return SymReal(tm.const(-1))
        return SymReal(tm.fn('cos', [self.t]))

    def sin(self):
        kind, u = split(self.t)
        if kind in ('plus', 'minus'):
            s = tm.sqrt(tm.sub(tm.ONE, tm.mul(u, u)))
            return SymReal(s if kind == 'plus' else tm.neg(s))
        if kind in ('zero', 'minus_pi', 'pi'):
            return SymReal(tm.ZERO)
        return SymReal(tm.fn('sin', [self.t]))
    SymReal.arccos, SymReal.sin, SymReal.cos = arccos, sin, cos
    return saved


def spherical_roundtrip(report, tier):
    from aurel.finitedifference import FiniteDifference
    from symx.npproxy import patched
    p = {'xmin': 0.0, 'ymin': 0.0, 'zmin': 0.0, 'dx': 1.0, 'dy': 1.0, 'dz': 1.0, 'Nx': 2, 'Ny': 2, 'Nz': 2}
    fd = FiniteDifference(p, verbose=False)
    saved = install_trig()
    paths, q = 0, 0
    bad = []
    cases = [('generic', []), ('on the axis y=0', ['y0'])]
    try:
        with patched(modules=('aurel.finitedifference', 'aurel.maths')):
            for cname, zero in cases:
                def run(c):
                    x, y, z = sym('x'), sym('y'), sym('z')
                    if 'y0' in zero:
                        y = SymReal(tm.ZERO)
                    c.pre.append(tm.lt(tm.ZERO, (x * x + y * y).t))      # away from the polar axis
                    arr = lambda v: np.array([v], dtype=object)          # noqa: E731
                    r, th, ph = fd.cartesian_to_spherical(arr(x), arr(y), arr(z))
                    xx, yy, zz = fd.spherical_to_cartesian(r, th, ph)
                    probs = []
                    for nm, a, b in (('x', xx[0], x), ('y', yy[0], y), ('z', zz[0], z)):
                        ta = a.t if isinstance(a, SymReal) else tm.const(a)
                        tb = b.t if isinstance(b, SymReal) else tm.const(b)
                        rr = solver.check(c.pre + c.pc + [tm.ne(ta, tb)], timeout_s=60)
                        if rr['verdict'] != 'unsat':
                            probs.append((nm, rr['verdict'], {k: str(v) for k, v in rr['model'].items() if v is not None}))
                    rt = r[0].t
                    rr = solver.check(c.pre + c.pc + [tm.ne(tm.mul(rt, rt), (x * x + y * y + z * z).t)], timeout_s=60)
                    if rr['verdict'] != 'unsat':
                        probs.append(('r', rr['verdict'], {}))
                    return probs
                for c, probs in explore(run, pre=[], backend='z3old', decide_timeout=30):
                    paths += 1
                    q += c.decision_queries
                    name = f"Cartesian -> spherical -> Cartesian ({cname}, path {paths})"
                    verdict = 'unsat' if not probs else ('sat' if any(p_[1] == 'sat' for p_ in probs) else 'unknown')
                    report.record(name, verdict, group='Cartesian <-> spherical round trip (exact reals, trig atoms)')
                    for nm, v, model in probs:
                        if v == 'sat':
                            pt = [float(__import__('fractions').Fraction(model.get(k, '0'))) for k in ('x', 'y', 'z')]
                            r_, t_, p_ = fd.cartesian_to_spherical(np.array([pt[0]]), np.array([pt[1]]), np.array([pt[2]]))
                            back = fd.spherical_to_cartesian(r_, t_, p_)
                            if not np.allclose([b[0] for b in back], pt, atol=1e-9):
                                report.violation('spherical round trip', f"{name}: component {nm} differs at {pt}: {back}",
                                                 report.write_replay('roundtrip', dict(point=pt)))
                            else:
                                report.harness_errors.append(f"{name}: solver model for {nm} not reproduced on floats")
                        else:
                            report.inconc(name, f'component {nm} not settled')
    except Inconclusive as e:
        report.inconc('spherical round trip', str(e))
    finally:
        SymReal.arccos, SymReal.sin, SymReal.cos = saved
    report.extra['roundtrip_paths'] = paths


def grid_unchanged_by_consumers(report):
    """The grid object keeps describing the grid after other components used it: every array attribute of the
    FiniteDifference object is bit-identical after the AurelCore requests that read the coordinates (extraction-sphere
    centre != 0, both tetrads).  Concrete executions on a small grid (the symbolic layers above decide the values at
    construction; this layer decides that nothing shifts them afterwards)."""
    import contextlib
    import io
    from aurel.finitedifference import FiniteDifference
    from aurel.core import AurelCore
    p = {'xmin': -1.0, 'ymin': -1.1, 'zmin': -0.9, 'dx': 0.25, 'dy': 0.3, 'dz': 0.2, 'Nx': 9, 'Ny': 8, 'Nz': 10}
    n = 0
    for center in ((0.0, 0.0, 0.0), (0.2, -0.1, 0.15)):
        for tetrad in ('quasi-Kinnersley', 'fluid'):
            fd = FiniteDifference(p, fd_order=4, verbose=False)
            snap = {k: np.copy(v) for k, v in vars(fd).items() if isinstance(v, np.ndarray)}
            with contextlib.redirect_stdout(io.StringIO()):
                rel = AurelCore(fd, verbose=False, center=center, tetrad=tetrad, lmax=2, extract_radii=[0.4])
                for key in ('null_ray_exp_out', 'null_ray_exp_in', 'Weyl_Psi', 'Psi4_lm', 'fluxup3_n'):
                    n += 1
                    try:
                        with np.errstate(all='ignore'):
                            rel[key]
                    except Exception as e:  # noqa
                        report.notes.append(f"grid-consumer request {key} (center={center}, tetrad={tetrad}) raised {e!r}"[:200])
                    for k, v in snap.items():
                        now = getattr(fd, k)
                        if not (isinstance(now, np.ndarray) and now.shape == v.shape and np.array_equal(now, v, equal_nan=True)):
                            dev = float(np.max(np.abs(now - v))) if isinstance(now, np.ndarray) and now.shape == v.shape else float('nan')
                            name = f"fd.{k} changed by rel['{key}']"
                            report.record(name, 'sat', group='grid arrays unchanged by consumers (concrete executions)', kind='concrete')
                            report.violation(f'grid array fd.{k} modified', f"after AurelCore(center={center}, tetrad={tetrad!r})['{key}'] "
                                             f"fd.{k} differs from its value at construction by {dev:.3g}",
                                             report.write_replay(f'grid_modified_{k}', dict(center=list(center), tetrad=tetrad, key=key, attr=k, dev=dev)))
                            snap[k] = np.copy(now)
    report.record(f'{n} AurelCore requests reading the grid (centre zero / non-zero, both tetrads): every array attribute of fd unchanged',
                  'holds', group='grid arrays unchanged by consumers (concrete executions)', kind='concrete', trivial=True)


def main(report, tier, seed, workers, calibrate=False):
    report.bounds = dict(N='1,2,3,10 (quick); 1..12,16,32,64,100,128 (thorough)', min='[-1e4, 1e4]', spacing='[1e-6, 1e3]',
                         trimming='ranks 1-3, fd_order 2-8 and the fall-back for 3, 7, 10, symbolic lengths >= 2k+1',
                         outside=['float error of the spherical round trip (exact-real claim)', 'excision helpers',
                                  'strict monotonicity of the coordinates for spacings below the float resolution of min'])
    report.assumptions += ['np.arange(N) has N entries 0..N-1 (numpy contract); np.arange(start, stop, step) has '
                           'ceil((stop-start)/step) entries computed in Float64 (model differential-tested against numpy each run)',
                           'np.pi denotes pi in the round-trip claim']
    report.stubs += ['(a) AST of FiniteDifference.__init__ lifted to QF_FP', '(c) arrays -> ShapeArr', '(d) arccos/sin/cos atoms with '
                     'cos(+-arccos u) = u, sin(+-arccos u) = +-sqrt(1-u^2), values at 0 and -pi']
    with FuncTrace() as ft:
        fp_queries(report, tier)
        structural(report)
        grid_unchanged_by_consumers(report)
        with use_ctx(Ctx(pre=[], fork=True)):
            trimming(report, tier)
        spherical_roundtrip(report, tier)
    report.functions |= ft.seen
    report.extra['source_sha1'] = source_digest(FILES)


def replay_payload(payload):
    print(payload)
    return 1
