"""C11 - Einstein Toolkit output is read back exactly for any file and process layout.

(i) The real read_ET_group_or_var (key selection by it/rl/c, cmax logic, ghost trimming, iorigin
    bookkeeping), join_chunks and fixij run on a fake HDF5 layer whose datasets are ShapeArr's:
    cut positions, ghost widths and extents are symbolic integers, the assertion is that every
    chunk's interior brick lands at origin - min origin with source offset = ghost width and the
    result has the interior extents in (x, y, z) order.
(ii) The real read_ET_data restart selection / flattening with symbolic, overlapping restart ranges.
(iii) Layouts that are not supported must raise."""
import itertools
import multiprocessing as mp
import os
import time

import numpy as np

from symx import term as tm, solver
from symx.sym import explore, Inconclusive, ctx
from symx.symint import SInt, sym_int, sym_set, sym_sorted
from symx.shapearr import ShapeArr, append as sa_append, S
from symx.harness import FuncTrace, source_digest
from .ch.fakefs import FakeFS, FakeOS, FakeNP, Arr

PID = 'C11'
FILES = ['src/aurel/reading.py', 'src/aurel/data/var_mappings.yml']


# ------------------------------------------------------------------------------ fake HDF5 with datasets
class DS:
    def __init__(self, data, attrs):
        self.data = data
        self.attrs = attrs


class H5File:
    def __init__(self, store, name):
        if name not in store:
            raise OSError(name)
        self.d = store[name]

    def __enter__(self):
        return self

    def __exit__(self, *a):
        return False

    def keys(self):
        return list(self.d.keys())

    def __getitem__(self, k):
        return self.d[k]


class H5:
    def __init__(self, store):
        self.store = store

    def File(self, name, mode='r'):
        return H5File(self.store, name)


class NP(FakeNP):
    integer = int

    @staticmethod
    def array(x):
        if isinstance(x, DS):
            return x.data
        return Arr(x) if isinstance(x, list) else x

    @staticmethod
    def append(a, b, axis=None):
        return sa_append(a, b, axis)

    @staticmethod
    def transpose(a, perm):
        return a.transpose(perm)

    @staticmethod
    def shape(a):
        return a.shape

    @staticmethod
    def sort(x):
        return Arr(sorted(x))


# ------------------------------------------------------------------------------ decompositions
def tensor_decomposition(px, py, pz):
    """rectilinear px x py x pz process grid: list of (interior lo, interior hi) per chunk, in (x,y,z)"""
    cuts = {ax: [SInt.var(f'{ax}{k}') for k in range(n + 1)] for ax, n in (('X', px), ('Y', py), ('Z', pz))}
    pre = []
    for ax in cuts:
        for a, b in zip(cuts[ax], cuts[ax][1:]):
            pre.append(tm.lt(a.t, b.t))
    chunks = []
    for c in range(pz):
        for b in range(py):
            for a in range(px):
                chunks.append(((cuts['X'][a], cuts['Y'][b], cuts['Z'][c]), (cuts['X'][a + 1], cuts['Y'][b + 1], cuts['Z'][c + 1])))
    lo = (cuts['X'][0], cuts['Y'][0], cuts['Z'][0])
    hi = (cuts['X'][-1], cuts['Y'][-1], cuts['Z'][-1])
    names = [v.t.val for ax in cuts for v in cuts[ax]]
    return chunks, lo, hi, pre, names


def slab_decomposition(kind):
    """Carpet-style recursive bisection with 3 processes (as in the onefile fixture): two chunks split
    along one axis in the lower slab of another axis, one chunk covering the upper slab."""
    v = {n: SInt.var(n) for n in ('X0', 'X1', 'X2', 'Y0', 'Y1', 'Y2', 'Z0', 'Z1', 'Z2')}
    pre = [tm.lt(v[a + '0'].t, v[a + '1'].t) for a in 'XYZ'] + [tm.lt(v[a + '1'].t, v[a + '2'].t) for a in 'XYZ']
    X0, X1, X2, Y0, Y1, Y2, Z0, Z1, Z2 = (v[n] for n in ('X0', 'X1', 'X2', 'Y0', 'Y1', 'Y2', 'Z0', 'Z1', 'Z2'))
    if kind == 'y-split-below-z':        # supported: slab in z, row split in y  (fixture layout)
        chunks = [((X0, Y0, Z0), (X2, Y1, Z1)), ((X0, Y1, Z0), (X2, Y2, Z1)), ((X0, Y0, Z1), (X2, Y2, Z2))]
        supported = True
    elif kind == 'x-split-below-z':
        chunks = [((X0, Y0, Z0), (X1, Y2, Z1)), ((X1, Y0, Z0), (X2, Y2, Z1)), ((X0, Y0, Z1), (X2, Y2, Z2))]
        supported = True
    elif kind == 'x-split-below-y':
        chunks = [((X0, Y0, Z0), (X1, Y1, Z2)), ((X1, Y0, Z0), (X2, Y1, Z2)), ((X0, Y1, Z0), (X2, Y2, Z2))]
        supported = True
    elif kind == 'y-split-beside-x':      # first cut in x, second in y of one half: not a z/y/x hierarchy
        chunks = [((X0, Y0, Z0), (X1, Y2, Z2)), ((X1, Y0, Z0), (X2, Y1, Z2)), ((X1, Y1, Z0), (X2, Y2, Z2))]
        supported = False
    else:                                 # first cut in y, second in z of one half
        chunks = [((X0, Y0, Z0), (X2, Y1, Z2)), ((X0, Y1, Z0), (X2, Y2, Z1)), ((X0, Y1, Z1), (X2, Y2, Z2))]
        supported = False
    return chunks, (X0, Y0, Z0), (X2, Y2, Z2), pre, list(v), supported


def regrid_decomposition():
    """one file whose decomposition changes between two iterations (regridding / another process count): iteration A is cut in
    x only (2 chunks), iteration B in x and y (4 chunks); same domain"""
    chunks4, lo, hi, pre, names = tensor_decomposition(2, 2, 1)
    X = [SInt.var(f'X{k}') for k in range(3)]
    Y = [SInt.var(f'Y{k}') for k in range(3)]
    Z = [SInt.var(f'Z{k}') for k in range(2)]
    chunks2 = [((X[0], Y[0], Z[0]), (X[1], Y[2], Z[1])), ((X[1], Y[0], Z[0]), (X[2], Y[2], Z[1]))]
    return chunks2, chunks4, lo, hi, pre, names


def build_store(chunks, ghosts, order, file_layout, variables, it_keys, rl, chunks_by_it=None):
    """fake files: datasets for every (variable, iteration, level, chunk); returns (store, files)"""
    if chunks_by_it is not None:
        store, files = {}, []
        for itv in it_keys:
            st_, fl_ = build_store(chunks_by_it[itv], ghosts, list(range(len(chunks_by_it[itv]))), file_layout, variables, [itv], rl)
            for fn, d in st_.items():
                store.setdefault(fn, {}).update(d)
                if fn not in files:
                    files.append(fn)
        return store, files
    store = {}
    gx, gy, gz = ghosts
    multi = len(chunks) > 1
    files = []
    base = 'admbase-metric' if len(variables) > 1 else variables[0]
    for cnum, ci in enumerate(order):
        lo, hi = chunks[ci]
        fname = f'/sim/{base}.file_{cnum}.h5' if file_layout == 'per-process' else f'/sim/{base}.h5'
        if fname not in store:
            store[fname] = {}
            files.append(fname)
        for v in variables:
            for itv in it_keys:
                for lev in (rl, 1 - rl):
                    key = f'ADMBASE::{v} it={itv} tl=0 rl={lev}' + (f' c={cnum}' if (multi or file_layout == 'per-process') else '')
                    shape = (hi[2] - lo[2] + gz + gz, hi[1] - lo[1] + gy + gy, hi[0] - lo[0] + gx + gx)
                    src = (v, itv, lev, ci)
                    store[fname][key] = DS(ShapeArr.chunk(src, shape),
                                           {'cctk_nghostzones': [gx, gy, gz],
                                            'iorigin': [lo[0] - gx, lo[1] - gy, lo[2] - gz], 'time': ('time', itv)})
    return store, files


def check_placement(out, variables, its, rl, chunks, lo, hi, ghosts, chunks_by_it=None):
    if chunks_by_it is not None:
        probs = []
        for k, itv in enumerate(its):
            sub = {v: [out[v][k]] if (out.get(v) is not None and len(out[v]) == len(its)) else None for v in variables}
            sub['t'] = [out['t'][k]] if len(out.get('t', [])) == len(its) else None
            probs += check_placement(sub, variables, [itv], rl, chunks_by_it[itv], lo, hi, ghosts)
        return probs
    c = ctx()
    probs = []
    gx, gy, gz = ghosts
    for v in variables:
        col = out.get(v)
        if col is None or len(col) != len(its):
            probs.append(f'variable {v}: wrong number of entries')
            continue
        for k, itv in enumerate(its):
            a = col[k]
            want_shape = (hi[0] - lo[0], hi[1] - lo[1], hi[2] - lo[2])
            if len(a.shape) != 3 or not all(c.valid(tm.eq(S(s).t, S(w).t)) for s, w in zip(a.shape, want_shape)):
                probs.append('result shape is not the interior extents in (x, y, z) order')
                continue
            if len(a.bricks) != len(chunks):
                probs.append(f'{len(a.bricks)} bricks for {len(chunks)} chunks (data lost or duplicated)')
                continue
            for br in a.bricks:
                if br.src[:3] != (v, itv, rl):
                    probs.append('brick comes from another variable / iteration / refinement level')
                    continue
                clo, chi = chunks[br.src[3]]
                for ax in range(3):                       # result axes are (x, y, z)
                    d, s, sa, so = br.axes[ax]
                    g = ghosts[ax]
                    ok = (sa == 2 - ax
                          and c.valid(tm.eq(S(d).t, (clo[ax] - lo[ax]).t))
                          and c.valid(tm.eq(S(s).t, (chi[ax] - clo[ax]).t))
                          and c.valid(tm.eq(S(so).t, S(g).t)))
                    if not ok:
                        probs.append('a chunk is not placed at (origin - min origin) with its ghost zones removed')
    if out.get('t') != [('time', i) for i in its]:
        probs.append("'t' column does not match the requested iterations")
    return probs


def cases(tier):
    out = []
    grids = [(1, 1, 1), (2, 1, 1), (1, 2, 1), (1, 1, 2), (2, 2, 1), (1, 2, 2), (2, 2, 2), (3, 1, 1), (1, 1, 3)]
    if tier == 'thorough':
        grids += [(3, 2, 1), (2, 3, 2), (3, 3, 1), (3, 2, 2)]
    for g in grids:
        n = g[0] * g[1] * g[2]
        orders = [list(range(n))]
        if 1 < n <= 3:
            orders = [list(p) for p in itertools.permutations(range(n))]
        elif n > 3:
            orders += [list(reversed(range(n))), [(k * 5 + 3) % n for k in range(n)] if n in (4, 6, 8, 12, 18) and len({(k * 5 + 3) % n for k in range(n)}) == n else list(range(n))[1:] + [0]]
        for order in orders:
            for fl in ('one-file', 'per-process'):
                for variables in (['gxx'], ['gxx', 'gxy']):
                    if tier == 'quick' and n > 4 and (fl == 'one-file') == (len(variables) == 1):
                        continue
                    out.append(dict(kind='tensor', grid=g, order=order, file_layout=fl, variables=variables))
    out.append(dict(kind='regrid', grid=None, order=[0, 1, 2, 3], file_layout='one-file', variables=['gxx']))
    for kind in ('y-split-below-z', 'x-split-below-z', 'x-split-below-y', 'y-split-beside-x', 'z-split-beside-y'):
        for order in ([[0, 1, 2], [2, 1, 0], [1, 2, 0]] if tier == 'quick' else [list(p) for p in itertools.permutations(range(3))]):
            out.append(dict(kind=kind, grid=None, order=order, file_layout='one-file', variables=['gxx']))
    return out


def run_case(args):
    idx, tier = args
    case = cases(tier)[idx]
    from aurel import reading
    name = (f"{case['kind']}{case['grid'] or ''} order={case['order']} {case['file_layout']} "
            f"{'grouped' if len(case['variables']) > 1 else 'single'}")
    res = dict(name=name, idx=idx, paths=0, queries=0, bad=[], inconclusive=None, raised=0, returned=0)
    t0 = time.time()

    def run(c):
        by_it = None
        it0, it1 = 0, 3          # iteration numbers live inside dataset-key strings parsed by a regex: concrete
        if case['kind'] == 'tensor':
            chunks, lo, hi, pre, names = tensor_decomposition(*case['grid'])
            supported = True
        elif case['kind'] == 'regrid':
            chunks2, chunks, lo, hi, pre, names = regrid_decomposition()
            by_it = {it0: chunks2, it1: chunks}
            supported = True
        else:
            chunks, lo, hi, pre, names, supported = slab_decomposition(case['kind'])
        g = [SInt.var('gx'), SInt.var('gy'), SInt.var('gz')]
        c.pre += pre + [tm.le(tm.ZERO, x.t) for x in g]
        store, files = build_store(chunks, g, case['order'], case['file_layout'], case['variables'], [it0, it1], 0, chunks_by_it=by_it)
        # iteration numbers appear inside dataset keys: format through the canonical tokens
        saved = {k: getattr(reading, k, None) for k in ('h5py', 'os', 'np', 'int')}
        fs = FakeFS()
        fs.files = {f: {} for f in store}
        reading.h5py, reading.os, reading.np, reading.int = H5(store), FakeOS(fs), NP(), sym_int
        cmax = (len(chunks) - 1) if case['file_layout'] == 'per-process' else 'in file'
        try:
            try:
                # iterations requested out of order: rows must come back in sorted order (that is how
                # read_ET_variables labels them)
                out = reading.read_ET_group_or_var(list(case['variables']), list(files), cmax, it=[it1, it0], rl=0)
                probs = check_placement(out, case['variables'], [it0, it1], 0, chunks, lo, hi, g, chunks_by_it=by_it)
                returned = True
            except Inconclusive:
                raise
            except Exception as e:  # noqa
                returned = False
                probs = [] if not supported else [f'supported layout raises {type(e).__name__}: {e}'[:150]]
        finally:
            for k, v in saved.items():
                if v is None:
                    if k == 'int' and hasattr(reading, 'int'):
                        del reading.int
                else:
                    setattr(reading, k, v)
        if returned and not supported and not probs:
            probs = []        # returned correctly placed data for a layout we did not expect to work: fine
        return probs, returned
    try:
        ints = ['gx', 'gy', 'gz', 'it0', 'it1'] + [f'{a}{k}' for a in 'XYZ' for k in range(5)]
        for c, (probs, returned) in explore(run, pre=[], backend='inproc', ints=ints, decide_timeout=5, max_paths=20000):
            res['paths'] += 1
            res['queries'] += c.decision_queries
            res['solver_seconds'] = res.get('solver_seconds', 0.0) + c.decision_seconds
            res['returned' if returned else 'raised'] += 1
            if probs and len(res['bad']) < 3:
                v, model = c.model()
                res['bad'].append(dict(problems=sorted(set(probs)), model={k: int(x) for k, x in model.items() if x is not None}))
                if len(res['bad']) >= 3:
                    break          # three failing paths establish the violation: no need to enumerate the rest
    except Inconclusive as e:
        res['inconclusive'] = str(e)
    res['seconds'] = round(time.time() - t0, 2)
    return res


def replay_case(tier, idx, model):
    """Concrete replay with real numpy arrays, real h5py files in a temp dir and the real functions."""
    import tempfile
    import shutil
    import h5py
    from aurel import reading
    case = cases(tier)[idx]

    def val(s):
        if isinstance(s, SInt):
            env = {v.val: model.get(v.val, 0) for v in tm.free_vars([s.t])}
            return int(tm.evaluate([s.t], {k: __import__('fractions').Fraction(x) for k, x in env.items()})[0])
        return int(s)
    chunks2 = None
    if case['kind'] == 'tensor':
        chunks, lo, hi, pre, names = tensor_decomposition(*case['grid'])
        supported = True
    elif case['kind'] == 'regrid':
        chunks2, chunks, lo, hi, pre, names = regrid_decomposition()
        supported = True
    else:
        chunks, lo, hi, pre, names, supported = slab_decomposition(case['kind'])
    g = [int(model.get(k, 0)) for k in ('gx', 'gy', 'gz')]
    lo_v = [val(x) for x in lo]
    hi_v = [val(x) for x in hi]
    full = np.arange(np.prod([h - l + 2 * gg for l, h, gg in zip(lo_v, hi_v, g)]), dtype=float).reshape(
        [hi_v[2] - lo_v[2] + 2 * g[2], hi_v[1] - lo_v[1] + 2 * g[1], hi_v[0] - lo_v[0] + 2 * g[0]])
    root = tempfile.mkdtemp(prefix='c11_')
    it1 = int(model.get('it1', 3))
    it0 = int(model.get('it0', 0))
    files = []
    try:
        multi = len(chunks) > 1
        base = 'admbase-metric' if len(case['variables']) > 1 else case['variables'][0]
        plan = [(cnum, chunks[ci], (it0, it1)) for cnum, ci in enumerate(case['order'])]
        if chunks2 is not None:          # regridding: iteration it0 in 2 chunks, it1 in 4, same file
            plan = [(cnum, ch, (it1,)) for cnum, ch in enumerate(chunks)] + [(cnum, ch, (it0,)) for cnum, ch in enumerate(chunks2)]
        for cnum, chunk_, its_here in plan:
            clo = [val(x) for x in chunk_[0]]
            chi = [val(x) for x in chunk_[1]]
            fname = os.path.join(root, f'{base}.file_{cnum}.h5' if case['file_layout'] == 'per-process' else f'{base}.h5')
            if fname not in files:
                files.append(fname)
            with h5py.File(fname, 'a') as f:
                for vi, v in enumerate(case['variables']):
                    for itv in its_here:
                        key = f'ADMBASE::{v} it={itv} tl=0 rl=0' + (f' c={cnum}' if (multi or case['file_layout'] == 'per-process') else '')
                        sl = tuple(slice(clo[ax] - lo_v[ax], chi[ax] - lo_v[ax] + 2 * g[ax]) for ax in (2, 1, 0))
                        d = f.create_dataset(key, data=full[sl] + 1000 * vi + 7 * itv)
                        d.attrs['cctk_nghostzones'] = np.array(g, dtype=np.int32)
                        d.attrs['iorigin'] = np.array([clo[0] - g[0], clo[1] - g[1], clo[2] - g[2]], dtype=np.int32)
                        d.attrs['time'] = 1.5 + itv
        cmax = (len(chunks) - 1) if case['file_layout'] == 'per-process' else 'in file'
        try:
            out = reading.read_ET_group_or_var(list(case['variables']), files, cmax, it=[it1, it0], rl=0)
        except Exception as e:  # noqa
            return dict(raised=repr(e)[:150], reproduces=supported)
        want = np.transpose(full[g[2]:full.shape[0] - g[2], g[1]:full.shape[1] - g[1], g[0]:full.shape[2] - g[0]], (2, 1, 0))
        bad = []
        for vi, v in enumerate(case['variables']):
            for k_, itv in enumerate(sorted((it0, it1))):
                got = out[v][k_]
                if got.shape != want.shape or not np.array_equal(got, want + 1000 * vi + 7 * itv):
                    bad.append(f'{v} row {k_}: shape {got.shape} vs {want.shape} or data of another iteration')
        if list(out['t']) != [1.5 + itv for itv in sorted((it0, it1))]:
            bad.append('t column not in the order of the sorted iterations')
        return dict(problems=bad, reproduces=bool(bad))
    finally:
        shutil.rmtree(root, ignore_errors=True)


# ------------------------------------------------------------------------------ (ii) restart selection
def restart_cases(tier):
    out = []
    for nres in (1, 2, 3):
        for nit in ((1, 2) if tier == 'quick' else (1, 2, 3)):
            out.append(dict(nres=nres, nit=nit, single=False))
    out.append(dict(nres=2, nit=2, single=True))
    # a later restart may stop before an earlier one did (re-run from a checkpoint for fewer iterations)
    out.append(dict(nres=2, nit=2, single=False, nonmono=True))
    out.append(dict(nres=3, nit=2, single=False, nonmono=True))
    return out


def run_restart_case(args):
    idx, tier = args
    case = restart_cases(tier)[idx]
    from aurel import reading
    nres, nit = case['nres'], case['nit']
    name = (f"restart selection: {nres} restarts, {nit} requested iterations" + (' (single-iteration restart)' if case['single'] else '')
            + (' (end iterations not monotone)' if case.get('nonmono') else ''))
    res = dict(name=name, idx=idx, paths=0, queries=0, bad=[], inconclusive=None)
    t0 = time.time()
    ints = [f'lo{r}' for r in range(nres)] + [f'hi{r}' for r in range(nres)] + [f'q{k}' for k in range(nit)]

    def run(c):
        lo = [SInt.var(f'lo{r}') for r in range(nres)]
        hi = [SInt.var(f'hi{r}') for r in range(nres)]
        q = [SInt.var(f'q{k}') for k in range(nit)]
        for r in range(nres):
            c.pre.append(tm.le(lo[r].t, hi[r].t))
            if r:
                c.pre.append(tm.le(lo[r - 1].t, lo[r].t))         # restarts start later and later
                if not case.get('nonmono'):
                    c.pre.append(tm.le(hi[r - 1].t, hi[r].t))
        if case['single']:
            c.pre.append(tm.eq(lo[0].t, hi[0].t))
        for x in q:                                              # every requested iteration exists somewhere
            c.pre.append(tm.bor([tm.band([tm.le(lo[r].t, x.t), tm.le(x.t, hi[r].t)]) for r in range(nres)]))
        saved = {k: getattr(reading, k, None) for k in ('np', 'int', 'iterations', 'get_content', 'read_ET_variables')}

        def iterations(param, **kw):
            d = {}
            for r in range(nres):
                av = [lo[r]] if (case['single'] and r == 0) else [lo[r], hi[r]]
                d[r] = {'var available': ['alpha'], 'its available': av, 'checkpoints': []}
            return d

        def get_content(param, **kw):
            return {('alp',): ['/sim/alp.h5']}

        def read_ET_variables(param, var, vars_and_files, **kw):
            it = sorted(set(kw['it']))
            r = kw['restart']
            return {'it': Arr(it), 't': [('time', r, i) for i in it], 'alpha': [('tag', 'alpha', r, i) for i in it]}
        reading.np, reading.int = NP(), sym_int
        reading.iterations, reading.get_content, reading.read_ET_variables = iterations, get_content, read_ET_variables
        probs = []
        try:
            try:
                out = reading.read_data({'simulation': 'ET', 'simname': 'sim', 'simpath': '/'}, it=list(q), vars=['alpha'],
                                        split_per_it=False, verbose=False)
            except Inconclusive:
                raise
            except Exception as e:  # noqa
                return [f'raises {type(e).__name__}: {e}'[:150]]
            ss = sorted(set(q))
            if len(out['alpha']) != len(ss):
                probs.append('number of returned entries differs from the number of requested iterations')
            for k, i in enumerate(ss):
                if k >= len(out['alpha']):
                    break
                latest = max(r for r in range(nres) if bool(lo[r] <= i) and bool(i <= hi[r]))
                tg = out['alpha'][k]
                if not (tg[2] == latest and tg[3] == i):
                    probs.append('an iteration present in several restarts is not taken from the latest one / wrong order')
                tt = out['t'][k]
                if not (tt[1] == latest and tt[2] == i):
                    probs.append("'t' entry does not belong to the returned iteration")
                if not (out['it'][k] == i):
                    probs.append("'it' column is not the sorted requested iterations")
        finally:
            for k, v in saved.items():
                if v is None:
                    if k == 'int' and hasattr(reading, 'int'):
                        del reading.int
                else:
                    setattr(reading, k, v)
        return probs
    try:
        for c, probs in explore(run, pre=[], backend='inproc', ints=ints, decide_timeout=5, max_paths=50000):
            res['paths'] += 1
            res['queries'] += c.decision_queries
            res['solver_seconds'] = res.get('solver_seconds', 0.0) + c.decision_seconds
            if probs and len(res['bad']) < 3:
                v, model = c.model()
                res['bad'].append(dict(problems=sorted(set(probs)), model={k: int(x) for k, x in model.items() if x is not None}))
                if len(res['bad']) >= 3:
                    break          # three failing paths establish the violation: no need to enumerate the rest
    except Inconclusive as e:
        res['inconclusive'] = str(e)
    res['seconds'] = round(time.time() - t0, 2)
    return res


def replay_restart(tier, idx, model):
    """concrete replay of the restart selection with the same stubs and real numpy"""
    from aurel import reading
    case = restart_cases(tier)[idx]
    nres, nit = case['nres'], case['nit']
    lo = [int(model.get(f'lo{r}', 0)) for r in range(nres)]
    hi = [int(model.get(f'hi{r}', 0)) for r in range(nres)]
    q = [int(model.get(f'q{k}', 0)) for k in range(nit)]
    saved = {k: getattr(reading, k) for k in ('iterations', 'get_content', 'read_ET_variables')}
    reading.iterations = lambda param, **kw: {r: {'var available': ['alpha'], 'its available': ([lo[r]] if case['single'] and r == 0 else [lo[r], hi[r]]),
                                                   'checkpoints': []} for r in range(nres)}
    reading.get_content = lambda param, **kw: {('alp',): ['/sim/alp.h5']}
    reading.read_ET_variables = lambda param, var, vf, **kw: {'it': np.array(sorted(set(kw['it']))),
                                                               't': [1000.0 * kw['restart'] + i for i in sorted(set(kw['it']))],
                                                               'alpha': [np.array([kw['restart'], i]) for i in sorted(set(kw['it']))]}
    try:
        try:
            out = reading.read_data({'simulation': 'ET', 'simname': 'sim', 'simpath': '/'}, it=list(q), vars=['alpha'],
                                    split_per_it=False, verbose=False)
        except Exception as e:  # noqa
            return dict(raised=repr(e)[:150], reproduces=True)
        ss = sorted(set(q))
        bad = []
        if len(out['alpha']) != len(ss):
            bad.append('count')
        for k, i in enumerate(ss[:len(out['alpha'])]):
            latest = max(r for r in range(nres) if lo[r] <= i <= hi[r])
            if list(out['alpha'][k]) != [latest, i] or out['t'][k] != 1000.0 * latest + i:
                bad.append(f'iteration {i}: got {list(out["alpha"][k])}, want restart {latest}')
        return dict(problems=bad, reproduces=bool(bad))
    finally:
        for k, v in saved.items():
            setattr(reading, k, v)


def name_maps(report):
    """variable-name tables are mutually consistent (finite tables: enumerated, reported as concrete executions)"""
    from aurel import reading
    bad = []
    for av, ets in reading.aurel_to_ET_varnames.items():
        back = [reading.transform_vars_ET_to_aurel(e) for e in ets]
        comps = reading.aurel_tensor_to_scalar.get(av, [av])
        if back != comps and not (len(ets) == 1 and back == [av]):
            bad.append((av, ets, back, comps))
        if reading.transform_vars_aurel_to_ET([av]) != ets:
            bad.append((av, 'aurel_to_ET', reading.transform_vars_aurel_to_ET([av])))
    for tv, comps in reading.aurel_tensor_to_scalar.items():
        if reading.transform_vars_tensor_to_scalar([tv, 'xyz']) != comps + ['xyz']:
            bad.append((tv, 'tensor_to_scalar'))
    for e, a in reading.ET_to_aurel_varnames.items():
        if reading.transform_vars_aurel_to_ET([a]) != [e]:
            bad.append((e, a, 'ET->aurel->ET'))
    # grouping back to aurel names must not depend on the order of the ET names and must not lose names
    import random
    rng = random.Random(0)
    for _ in range(200):
        pick = rng.sample(list(reading.aurel_to_ET_varnames), 3)
        ets = [e for p_ in pick for e in reading.aurel_to_ET_varnames[p_]]
        ets = list(dict.fromkeys(ets))
        shuffled = ets[:]
        rng.shuffle(shuffled)
        got = reading.transform_vars_ET_to_aurel_groups(list(shuffled))
        flat = sorted(e for g in got for e in reading.aurel_to_ET_varnames.get(g, [g]))
        if sorted(set(flat)) != sorted(set(ets)):
            bad.append(('groups', pick, got))
            break
    report.record('variable-name tables are mutually consistent (aurel <-> ET, tensor <-> components, grouping)',
                  'holds' if not bad else 'sat', group='name maps (concrete table enumeration)', kind='concrete', trivial=True)
    if bad:
        report.violation('name maps', f'inconsistent variable-name translation: {bad[0]}', report.write_replay('name_maps', dict(bad=str(bad[:3]))))


def main(report, tier, seed, workers, calibrate=False):
    cs = cases(tier)
    rcs = restart_cases(tier)
    report.bounds = dict(process_grids='tensor grids up to 2x2x2 and 3x1x1 / 1x1x3 (quick), up to 3x3x1 / 2x3x2 (thorough); '
                         'Carpet-style 3-chunk bisection layouts (3 supported, 2 unsupported)',
                         cut_positions='symbolic integers (any extents)', ghost_widths='symbolic, >= 0, per axis',
                         orders='all permutations for <= 3 chunks, identity / reverse / one shuffle beyond',
                         layouts=['one file / one file per process', 'one variable / a group per file'],
                         restarts='<= 3 restarts with symbolic nested-start ranges, <= 2 (quick) / 3 requested iterations',
                         outside=['byte-level HDF5 decoding (h5py)', 'directory scanning (glob, listdir)', 'checkpoint reader',
                                  'Carpet refinement-level geometry beyond independent datasets'])
    report.assumptions += ['chunk iorigin = interior origin - ghost width; stored shape = interior + 2 ghost (as in the four fixtures)',
                           'restart k+1 starts and ends no earlier than restart k; every requested iteration lies in some restart']
    report.stubs += ['reading.h5py -> in-memory files whose datasets are ShapeArr (symbolic shape, brick list)',
                     'reading.np -> list / ShapeArr shim (append, transpose, shape, sort, array, max, arange)',
                     'builtin int() in aurel.reading -> identity on symbolic integers',
                     '(ii): iterations, get_content, read_ET_variables -> tagged placeholders']
    with FuncTrace() as ft:
        run_case((0, tier))
        run_restart_case((0, tier))
    report.functions |= ft.seen
    report.extra['source_sha1'] = source_digest(FILES)
    with mp.Pool(min(workers, 16)) as pool:
        results = pool.map(run_case, [(i, tier) for i in range(len(cs))], chunksize=1)
        rresults = pool.map(run_restart_case, [(i, tier) for i in range(len(rcs))], chunksize=1)
    tot = 0
    for r, replay, group in [(x, replay_case, None) for x in results] + [(x, replay_restart, 'restart selection') for x in rresults]:
        tot += r['paths']
        verdict = 'unsat'
        if r['inconclusive']:
            verdict = 'unknown'
            report.inconc(r['name'], r['inconclusive'])
        if r['bad']:
            verdict = 'sat'
        report.record(r['name'], verdict, r['seconds'], backend='z3py-inproc', sha=f"{r['paths']}p{r['queries']}q:{r['idx']}",
                      group=group or r['name'].split(' order')[0],
                      detail=dict(paths=r['paths'], queries=r['queries'], raised=r.get('raised'), returned=r.get('returned')))
        solver.STATS.queries += r['queries']
        solver.STATS.seconds += r.get('solver_seconds', 0.0)
        solver.STATS.by_backend['z3py-inproc'] = solver.STATS.by_backend.get('z3py-inproc', 0) + r['queries']
        for b in r['bad'][:1]:
            rp = replay(tier, r['idx'], b['model'])
            key = (group or r['name'].split(' order')[0]) + ': ' + b['problems'][0][:80]
            if rp['reproduces']:
                path = report.write_replay(f"{'r' if group else 'c'}{r['idx']}", dict(case=r['name'], idx=r['idx'], tier=tier, part='restart' if group else 'chunks',
                                                                                   model=b['model'], problems=b['problems'], replay=rp))
                report.violation(key, f"{r['name']} with {b['model']}: {b['problems'][0]}; replay {rp}", path)
            else:
                report.harness_errors.append(f"{r['name']}: symbolic path reports {b['problems'][:2]} but the concrete replay does not: {rp}")
    report.extra['paths_explored'] = tot
    name_maps(report)
    # unsupported layouts must have raised on every path
    for r in results:
        if r['name'].startswith(('y-split-beside-x', 'z-split-beside-y')):
            report.vacuity.append(dict(name=f"unsupported layout raises: {r['name']}", expect='raised>0',
                                       got=f"raised={r['raised']} returned={r['returned']}"))
    # translator validation: the fake layer against real h5py on one concrete instance per case
    for i in range(len(cs)):
        model = {'gx': 1, 'gy': 2, 'gz': 0 if i % 3 == 0 else 1, 'it0': 0, 'it1': 3}
        for a in 'XYZ':
            for k in range(5):
                model[f'{a}{k}'] = 3 * k + (1 if a == 'Y' else 0) + k * (k % 2)
        rp = replay_case(tier, i, model)
        report.validation['translator_checks'] += 1
        unsupported = results[i]['name'].startswith(('y-split-beside-x', 'z-split-beside-y'))
        if rp.get('reproduces') and not (unsupported and 'raised' in rp):
            path = report.write_replay(f"c{i}_concrete", dict(case=results[i]['name'], idx=i, tier=tier, part='chunks', model=model, replay=rp))
            report.violation(results[i]['name'].split(' order')[0] + ': concrete', f"{results[i]['name']} with {model}: {rp}", path)


def replay_payload(payload):
    f = replay_restart if payload.get('part') == 'restart' else replay_case
    rp = f(payload.get('tier', 'quick'), payload['idx'], payload['model'])
    print(rp)
    return 1 if rp['reproduces'] else 0
