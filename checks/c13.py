"""C13 - save_data / read_data round trip in Aurel format.

The real save_data / read_aurel_data / read_data run over an in-memory file system with *symbolic
integer* iteration numbers (unbounded values; every comparison, set/sort/index operation and file
name is decided by z3 against the path condition, forking when undetermined) and all paths are
explored.  Dataset contents are opaque tags.  Counterexample paths are replayed with real h5py."""
import itertools
import multiprocessing as mp
import os
import shutil
import tempfile
import time

import numpy as np

from symx import term as tm, solver
from symx.sym import explore, Inconclusive
from symx.symint import SInt, sym_int, sym_set, sym_sorted
from symx.harness import FuncTrace, source_digest
from .ch.fakefs import FakeFS, FakeH5, FakeOS, FakeNP

PID = 'C13'
FILES = ['src/aurel/reading.py']


# ------------------------------------------------------------------------------ scenarios
# Each scenario: (name, int variable names, preconditions(vars)->[bool terms], body(api, vars)->problems)
class Api:
    """what a scenario sees: the functions under test, a tag factory and a tag comparison"""

    def __init__(self, reading, concrete):
        self.reading = reading
        self.concrete = concrete

    def tag(self, var, version, it, rl=0, kind='f'):
        """opaque array content; kind 'i' = integer-typed array, 'f' = float array with a fractional part"""
        if self.concrete:
            if kind == 'i':
                return np.array([int(version), hash(var) % 97, int(it), int(rl)], dtype=np.int64)
            return np.array([float(version) + 0.5, float(hash(var) % 97), float(it), float(rl)])
        return Tag(('tag', var, version, it, rl), kind)

    def same(self, a, b):
        if a is None or b is None:
            return a is None and b is None
        if self.concrete:
            return isinstance(a, np.ndarray) and np.array_equal(a, b)
        if getattr(a, 'cast_from', None) or getattr(b, 'cast_from', None):
            return False                                   # the stored values went through a lossy dtype conversion
        return a[:3] == b[:3] and a[3] == b[3] and a[4] == b[4]


class Tag(tuple):
    """opaque array content with the two properties of an array the code under test can see: shape and dtype kind"""
    shape = (4,)

    def __new__(cls, items, kind='f', cast_from=None):
        self = super().__new__(cls, items)
        self.dtype = kind
        self.cast_from = cast_from
        return self

    def converted(self, kind):
        # integer values stored in a float dataset keep their value; float values stored in an integer dataset do not
        return Tag(tuple(self), kind, cast_from=(self.dtype if (self.dtype, kind) == ('f', 'i') else self.cast_from))


def distinct(vs):
    return [tm.ne(a.t, b.t) for a, b in itertools.combinations(vs, 2)]


def member(x, vs):
    return tm.bor([tm.eq(x.t, v.t) for v in vs])


def sc_roundtrip(n, m, slash, rl):
    names = [f'i{k}' for k in range(n)] + [f's{k}' for k in range(m)]

    def pre(v):
        its, sel = v[:n], v[n:]
        return distinct(its) + [member(s, its) for s in sel]

    def body(api, v):
        its, sel = list(v[:n]), list(v[n:])
        R = api.reading
        path = '/d/' if slash else '/d'
        data = {'it': list(its), 't': [api.tag('t', 0, i) for i in its], 'v': [api.tag('v', 1, i, rl) for i in its]}
        R.save_data({'datapath': api.root + path}, data, vars=['v'], it=list(sel), rl=rl)
        out = R.read_data({'datapath': api.root + '/d/'}, it=list(sel), vars=['v'], rl=rl)
        ss = sorted(set(sel))
        probs = []
        if len(out['v']) != len(ss) or len(out['t']) != len(ss) or len(out['it']) != len(ss):
            probs.append('column length differs from the number of requested iterations')
        for k in range(min(len(ss), len(out['v']))):
            if not api.same(out['v'][k], api.tag('v', 1, ss[k], rl)):
                probs.append('variable read back for an iteration is not the array saved for that iteration')
            if not api.same(out['t'][k], api.tag('t', 0, ss[k])):
                probs.append('time read back differs from the time saved for that iteration')
        other = R.read_data({'datapath': api.root + '/d/'}, it=list(sel), vars=['v'], rl=1 - rl)
        if not all(x is None for x in other['v']) or len(other['v']) != len(ss):
            probs.append('data appears under a refinement level it was not saved for')
        return probs
    return (f'roundtrip n={n} m={m} slash={slash} rl={rl}', names, pre, body)


def sc_unsaved(n, m, k):
    names = [f'i{j}' for j in range(n)] + [f's{j}' for j in range(m)] + [f'a{j}' for j in range(k)]

    def pre(v):
        its, sel = v[:n], v[n:n + m]
        return distinct(its) + [member(s, its) for s in sel]

    def body(api, v):
        its, sel, ask = list(v[:n]), list(v[n:n + m]), list(v[n + m:])
        R = api.reading
        data = {'it': list(its), 'v': [api.tag('v', 1, i) for i in its], 'w': [api.tag('w', 1, i) for i in its]}
        R.save_data({'datapath': api.root + '/d/'}, data, vars=['v'], it=list(sel))
        out = R.read_data({'datapath': api.root + '/d/'}, it=list(ask), vars=['v', 'w'])
        aa = sorted(set(ask))
        probs = []
        if len(out['v']) != len(aa) or len(out['w']) != len(aa):
            probs.append('column length differs from the number of requested iterations')
        for j in range(min(len(aa), len(out['v']))):
            want = api.tag('v', 1, aa[j]) if aa[j] in sel else None
            if not api.same(out['v'][j], want):
                probs.append('saved/unsaved iteration not reported as array/None')
            if out['w'][j] is not None:
                probs.append('a variable that was never saved is not None')
        return probs
    return (f'unsaved-is-None n={n} m={m} k={k}', names, pre, body)


def sc_ragged(n, hole):
    names = [f'i{j}' for j in range(n)]

    def pre(v):
        return distinct(v)

    def body(api, v):
        its = list(v)
        R = api.reading
        col = [api.tag('v', 1, i) for i in its]
        col[hole] = None
        data = {'it': list(its), 'v': col, 'w': None}
        R.save_data({'datapath': api.root + '/d/'}, data, it=list(its))
        out = R.read_data({'datapath': api.root + '/d/'}, it=list(its), vars=['v'])
        ss = sorted(its)
        probs = []
        for j in range(len(ss)):
            want = None if ss[j] == its[hole] else api.tag('v', 1, ss[j])
            if not api.same(out['v'][j], want):
                probs.append('ragged None entry not skipped / neighbours not stored')
        return probs
    return (f'ragged-None n={n} hole={hole}', names, pre, body)


def sc_overwrite(n, m, k, kinds=('f', 'f')):
    names = [f'i{j}' for j in range(n)] + [f's{j}' for j in range(m)] + [f'a{j}' for j in range(k)]

    def pre(v):
        its = v[:n]
        return distinct(its) + [member(s, its) for s in v[n:]]

    def body(api, v):
        its, sel1, sel2 = list(v[:n]), list(v[n:n + m]), list(v[n + m:])
        R = api.reading
        d1 = {'it': list(its), 'v': [api.tag('v', 1, i, kind=kinds[0]) for i in its]}
        d2 = {'it': list(reversed(its)), 'v': [api.tag('v', 2, i, kind=kinds[1]) for i in reversed(its)]}
        R.save_data({'datapath': api.root + '/d/'}, d1, vars=['v'], it=list(sel1))
        R.save_data({'datapath': api.root + '/d/'}, d2, vars=['v'], it=list(sel2))
        out = R.read_data({'datapath': api.root + '/d/'}, it=list(its), vars=['v'])
        ss = sorted(its)
        probs = []
        for j in range(len(ss)):
            i = ss[j]
            want = api.tag('v', 2, i, kind=kinds[1]) if i in sel2 else (api.tag('v', 1, i, kind=kinds[0]) if i in sel1 else None)
            if not api.same(out['v'][j], want):
                probs.append('after two saves the most recent array for the iteration is not returned')
        return probs
    return (f'overwrite n={n} m={m} k={k}' + ('' if kinds == ('f', 'f') else f' dtypes={kinds[0]}->{kinds[1]}'), names, pre, body)


def sc_overwrite_none(n, hole):
    names = [f'i{j}' for j in range(n)]

    def pre(v):
        return distinct(v)

    def body(api, v):
        its = list(v)
        R = api.reading
        d1 = {'it': list(its), 'v': [api.tag('v', 1, i) for i in its]}
        col = [api.tag('v', 2, i) for i in its]
        col[hole] = None
        d2 = {'it': list(its), 'v': col}
        R.save_data({'datapath': api.root + '/d/'}, d1, vars=['v'], it=list(its))
        R.save_data({'datapath': api.root + '/d/'}, d2, vars=['v'], it=list(its))
        out = R.read_data({'datapath': api.root + '/d/'}, it=list(its), vars=['v'])
        ss = sorted(its)
        probs = []
        for j in range(len(ss)):
            want = api.tag('v', 1, ss[j]) if ss[j] == its[hole] else api.tag('v', 2, ss[j])
            if not api.same(out['v'][j], want):
                probs.append('a skipped None entry changed what is stored for that iteration (most recent array lost)')
        return probs
    return (f'overwrite-with-None n={n} hole={hole}', names, pre, body)


def sc_readall_ragged(n):
    names = [f'i{j}' for j in range(n)]

    def pre(v):
        return distinct(v)

    def body(api, v):
        its = list(v)
        R = api.reading
        d1 = {'it': list(its), 'v': [api.tag('v', 1, i) for i in its]}
        d2 = {'it': list(its[1:]), 'w': [api.tag('w', 1, i) for i in its[1:]]}
        R.save_data({'datapath': api.root + '/d/'}, d1, vars=['v'], it=list(its))
        if len(its) > 1:
            R.save_data({'datapath': api.root + '/d/'}, d2, vars=['w'], it=list(its[1:]))
        out = R.read_data({'datapath': api.root + '/d/'}, it=list(its))        # all variables
        ss = sorted(its)
        probs = []
        for key in out:
            if key != 'it' and len(out[key]) != len(ss):
                probs.append(f'column {key} does not have one entry per requested iteration')
        if len(its) > 1:
            if 'w' not in out:
                probs.append('variable present only in later iterations is missing when reading all variables')
            elif len(out['w']) == len(ss):
                for j in range(len(ss)):
                    want = None if ss[j] == its[0] else api.tag('w', 1, ss[j])
                    if not api.same(out['w'][j], want):
                        probs.append('entries of a ragged variable are filed under the wrong iteration when reading all variables')
        for j in range(min(len(ss), len(out.get('v', [])))):
            if not api.same(out['v'][j], api.tag('v', 1, ss[j])):
                probs.append('reading all variables returns the wrong array')
        return probs
    return (f'read-all-ragged n={n}', names, pre, body)


def sc_all_vars(n):
    names = [f'i{j}' for j in range(n)]

    def pre(v):
        return distinct(v)

    def body(api, v):
        its = list(v)
        R = api.reading
        # user variable names that contain the catalogue's own key names as substrings ('it', 't')
        data = {'it': list(its), 't': [api.tag('t', 0, i) for i in its], 'v': [api.tag('v', 1, i) for i in its],
                'w': [api.tag('w', 1, i) for i in its], 'density': [api.tag('density', 1, i) for i in its],
                'split_tt': [api.tag('split_tt', 1, i) for i in its]}
        R.save_data({'datapath': api.root + '/d/'}, data, it=list(its))          # vars=[] -> everything
        out = R.read_data({'datapath': api.root + '/d/'}, it=list(its))             # vars=[] -> everything
        ss = sorted(its)
        probs = []
        for key in ('v', 'w', 't', 'density', 'split_tt'):
            if key not in out or len(out[key]) != len(ss):
                probs.append(f'column {key} missing or of wrong length when reading all variables')
                continue
            for j in range(len(ss)):
                if not api.same(out[key][j], api.tag(key, 0 if key == 't' else 1, ss[j])):
                    probs.append('reading all variables returns the wrong array')
        return probs
    return (f'all-variables n={n}', names, pre, body)


def sc_args(n, m, with_it, slash=True):
    names = [f'i{j}' for j in range(n)] + [f's{j}' for j in range(m)]

    def pre(v):
        its = v[:n]
        return distinct(its) + [member(s, its) for s in v[n:]]

    def body(api, v):
        its, sel = list(v[:n]), list(v[n:])
        R = api.reading
        data = {'it': list(its), 't': [api.tag('t', 0, i) for i in its], 'v': [api.tag('v', 1, i) for i in its]}
        vars_ = ['v', 'it'] if with_it else ['v']
        sel_ = list(sel)
        ids = (list(vars_), [id(x) for x in sel_], list(data.keys()), {k_: [id(x) for x in c] for k_, c in data.items()})
        param = {'datapath': api.root + ('/d/' if slash else '/d')}
        param0 = dict(param)
        R.save_data(param, data, vars=vars_, it=sel_)
        probs = []
        now = (list(vars_), [id(x) for x in sel_], list(data.keys()), {k_: [id(x) for x in c] for k_, c in data.items()})
        if now != ids:
            probs.append('save_data modified one of its arguments (vars / it / data)')
        if param != param0:
            probs.append('save_data modified the param dict of its caller')
        rv = ['v']
        R.read_data(param, it=sel_, vars=rv)
        if rv != ['v'] or [id(x) for x in sel_] != ids[1] or param != param0:
            probs.append('read_data modified one of its arguments')
        return probs
    return (f'arguments-untouched n={n} m={m} with_it={with_it} slash={slash}', names, pre, body)


def scenarios(tier):
    out = []
    nmax = 3
    for n in range(1, nmax + 1):
        for m in range(1, (2 if tier == 'quick' else 3) + 1):
            out.append(sc_roundtrip(n, m, slash=(n + m) % 2 == 0, rl=(n % 2)))
        out.append(sc_unsaved(n, 1, 2))
        for hole in range(n):
            out.append(sc_ragged(n, hole))
        out.append(sc_overwrite(n, 1, 1))
        out.append(sc_overwrite(n, 1, 1, kinds=('i', 'f') if n % 2 else ('f', 'i')))
        out.append(sc_all_vars(n))
        out.append(sc_readall_ragged(n))
        out.append(sc_overwrite_none(n, n - 1))
        out.append(sc_args(n, min(n, 2), with_it=bool(n % 2)))
        out.append(sc_args(n, 1, with_it=not bool(n % 2), slash=False))
    if tier == 'thorough':
        out += [sc_unsaved(3, 2, 3), sc_overwrite(3, 2, 2), sc_roundtrip(3, 3, True, 1), sc_roundtrip(3, 3, False, 0),
                sc_args(3, 3, True), sc_args(3, 3, False)]
    return out


# ------------------------------------------------------------------------------ execution
def run_scenario(args):
    idx, tier = args
    name, names, pre, body = scenarios(tier)[idx]
    from aurel import reading
    res = dict(name=name, paths=0, queries=0, bad=[], inconclusive=None)
    t0 = time.time()

    def run(c):
        vs = [SInt.var(nm) for nm in names]
        for p in pre(vs):
            c.pre.append(p)
        fs = FakeFS()
        saved = (reading.h5py, reading.os, reading.np, getattr(reading, 'int', None))
        reading.h5py, reading.os, reading.np, reading.int = FakeH5(fs), FakeOS(fs), FakeNP(), sym_int
        reading.set, reading.sorted = sym_set, sym_sorted
        api = Api(reading, concrete=False)
        api.root = ''
        try:
            try:
                probs = body(api, vs)
            except Inconclusive:
                raise
            except Exception as e:  # noqa
                probs = [f'raises {type(e).__name__}: {e}'[:160]]
        finally:
            reading.h5py, reading.os, reading.np = saved[:3]
            del reading.set, reading.sorted
            if saved[3] is None:
                del reading.int
            else:
                reading.int = saved[3]
        return probs
    try:
        for c, probs in explore(run, pre=[], backend='inproc', ints=names, decide_timeout=5, max_paths=20000):
            res['paths'] += 1
            res['queries'] += c.decision_queries
            res['solver_seconds'] = res.get('solver_seconds', 0.0) + c.decision_seconds
            if probs and len(res['bad']) < 3:
                v, model = c.model()
                res['bad'].append(dict(problems=sorted(set(probs)), model={k: int(x) for k, x in model.items() if x is not None}))
                if len(res['bad']) >= 3:
                    break          # three failing paths establish the violation: no need to enumerate the rest
    except Inconclusive as e:
        res['inconclusive'] = str(e)
    res['seconds'] = round(time.time() - t0, 2)
    return res


def replay_concrete(tier, name, model):
    """Replay a path model with the real h5py / os / numpy in a temporary directory."""
    from aurel import reading
    sc = [s for s in scenarios(tier) if s[0] == name] or [s for s in scenarios('thorough') if s[0] == name]
    _, names, pre, body = sc[0]
    vals = [int(model.get(nm, 0)) for nm in names]
    root = tempfile.mkdtemp(prefix='c13_')
    api = Api(reading, concrete=True)
    api.root = root
    try:
        try:
            probs = body(api, vals)
        except Exception as e:  # noqa
            probs = [f'raises {type(e).__name__}: {e}'[:160]]
    finally:
        shutil.rmtree(root, ignore_errors=True)
    return dict(values=dict(zip(names, vals)), problems=sorted(set(probs)), reproduces=bool(probs))


def argument_contracts(report):
    """used by C02: the argument-untouched scenarios only"""
    for idx, sc in enumerate(scenarios('quick')):
        if sc[0].startswith('arguments-untouched'):
            r = run_scenario((idx, 'quick'))
            _record(report, r, 'quick', group='save_data / read_data leave their arguments untouched (symbolic iterations)')


def _record(report, r, tier, group=None):
    verdict = 'unsat'
    if r['inconclusive']:
        verdict = 'unknown'
        report.inconc(r['name'], r['inconclusive'])
    if r['bad']:
        verdict = 'sat'
    report.record(r['name'], verdict, r['seconds'], backend='z3py-inproc', sha=f"{r['paths']}p{r['queries']}q:{hash(r['name']) & 0xffffff:x}",
                  group=group or r['name'].split(' ')[0], detail=dict(paths=r['paths'], queries=r['queries']))
    solver.STATS.queries += r['queries']
    solver.STATS.seconds += r.get('solver_seconds', 0.0)
    solver.STATS.by_backend['z3py-inproc'] = solver.STATS.by_backend.get('z3py-inproc', 0) + r['queries']
    for b in r['bad'][:1]:
        rp = replay_concrete(tier, r['name'], b['model'])
        key = r['name'].split(' ')[0] + ':' + b['problems'][0]
        if rp['reproduces']:
            path = report.write_replay(key, dict(scenario=r['name'], tier=tier, model=b['model'], problems=b['problems'], replay=rp))
            report.violation(key, f"{r['name']}: {b['problems'][0]} (e.g. {rp['values']})", path)
        else:
            report.harness_errors.append(f"{r['name']}: symbolic path reports {b['problems']} but the h5py replay does not: {rp}")


def main(report, tier, seed, workers, calibrate=False):
    scs = scenarios(tier)
    report.bounds = dict(iterations_in_dictionary='<= 3 (distinct, any order, unbounded integer values)',
                         selected='<= 2 (quick) / 3 (thorough), duplicates and any order allowed',
                         saves='<= 2 successive saves', levels='rl in {0, 1}', datapath='with / without trailing slash',
                         outside=['HDF5 dtype / precision round trip (h5py)', 'ET-style directory layout of save_data '
                                  '(exercised through the read cache in C12)'])
    report.assumptions += ['iteration numbers are integers (symbolic, unbounded)', 'dataset contents are opaque tags']
    report.stubs += ['reading.h5py / reading.os -> in-memory file system (checks/ch/fakefs.py)',
                     'reading.np -> pure-Python list shim (array, sort, abs, argmin)',
                     'builtin int() inside aurel.reading -> identity on symbolic integers (file names use one canonical '
                     'token per equality class under the path condition)']
    with FuncTrace() as ft:
        run_scenario((0, tier))
    report.functions |= ft.seen
    report.extra['source_sha1'] = source_digest(FILES)
    with mp.Pool(min(workers, len(scs))) as pool:
        results = pool.map(run_scenario, [(i, tier) for i in range(len(scs))], chunksize=1)
    tot = 0
    for r in results:
        _record(report, r, tier)
        tot += r['paths']
    report.extra['paths_explored'] = tot
    # translator validation: the fake layer agrees with real h5py on a concrete instance of every scenario
    ok = 0
    for name, names, pre, body in scs:
        rp = replay_concrete(tier, name, {nm: (7 * k + 3) % 11 if not nm.startswith(('s', 'a')) else 3 for k, nm in enumerate(names)})
        report.validation['translator_checks'] += 1
        if rp['reproduces']:
            # a concrete violation on the unchanged tree is a finding in its own right
            key = name.split(' ')[0] + ':' + rp['problems'][0]
            report.violation(key, f"{name}: {rp['problems'][0]} (concrete {rp['values']})",
                             report.write_replay(key, dict(scenario=name, tier=tier, model=rp['values'], replay=rp)))
    # vacuity: a deliberately wrong expectation must produce a bad path
    report.vacuity.append(dict(name='paths explored > 0 for every scenario', expect='yes',
                               got='yes' if all(r['paths'] > 0 for r in results) else 'no'))


def replay_payload(payload):
    rp = replay_concrete(payload.get('tier', 'thorough'), payload['scenario'], payload['model'])
    print(rp)
    return 1 if rp['reproduces'] else 0
