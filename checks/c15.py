"""C15 - the symbolic core gives the textbook tensors for any metric, flag and request order.

AurelCoreSymbolic runs on sympy objects (a symbolic execution with a single path per (dim, simplify,
cache state)).  The metric entries are undetermined functions g_ij(x_0..x_{d-1}) - symmetric, fully
non-diagonal - or, where sympy.simplify is too slow on those, a committed family of polynomial
non-diagonal metrics with symbolic parameters.  The returned expressions are translated atom by atom
into SMT terms (each g_ij(x) and each Derivative(...) becomes one jet variable) and compared by z3
with the oracle built by the Jet engine from the same variables: identity over all jets."""
import itertools
import multiprocessing as mp
import time
from fractions import Fraction as F

import numpy as np
import sympy as sp

from symx import term as tm, oracle, solver
from symx.sym import SymReal
from symx.jet import Jet, keys as jet_keys
from symx.harness import Ob, FuncTrace, source_digest, solve_ladder, eval_terms

PID = 'C15'
FILES = ['src/aurel/coresymbolic.py']
QUANTITIES = ['gup', 'gdet', 'Gamma_udd', 'Gamma_down', 'Riemann_uddd', 'Riemann_down', 'Ricci_down', 'RicciS', 'Einstein_down']


# ------------------------------------------------------------------------------ sympy -> term
class Translator:
    def __init__(self, atom_map):
        self.atom_map = atom_map        # sympy atom (Function application / Derivative / Symbol) -> term
        self.memo = {}

    def tr(self, e):
        k = e
        if k in self.memo:
            return self.memo[k]
        if e in self.atom_map:
            r = self.atom_map[e]
        elif e.is_Integer or e.is_Rational:
            r = tm.const(F(int(e.p), int(e.q)))
        elif e.is_Float:
            r = tm.const(float(e))
        elif e.is_Add:
            r = tm.addn([self.tr(a) for a in e.args])
        elif e.is_Mul:
            r = tm.ONE
            for a in e.args:
                r = tm.mul(r, self.tr(a))
        elif e.is_Pow:
            b, p = e.args
            if not p.is_Integer:
                raise ValueError(f"non-integer power {e}")
            r = tm.ipow(self.tr(b), int(p))
        elif isinstance(e, sp.Derivative) or e.is_Function or e.is_Symbol:
            raise ValueError(f"unmapped atom {e}")
        else:
            raise ValueError(f"unsupported sympy node {type(e)}")
        self.memo[k] = r
        return r


def generic_metric(dim, structure=None):
    """symmetric matrix of undetermined functions + jets carrying the same variables.
    structure 'null': the last diagonal entry vanishes identically (a null coordinate: g_ab != 0 where g^ab == 0 and
    vice versa); 'offdiag': the diagonal entries depend on x0 only, the off-diagonal ones on every coordinate (a
    coordinate that appears in no diagonal entry)."""
    coords = sp.symbols(f'x0:{dim}')
    fun = {}
    jets = oracle.arr((dim, dim))
    atom_map = {}
    for i in range(dim):
        for j in range(i, dim):
            if structure == 'null' and i == j == dim - 1:
                fun[i, j] = sp.Integer(0)
                jets[i, j] = Jet(dim, 2, {k: tm.ZERO for k in jet_keys(dim, 2)})
                continue
            restricted = structure == 'offdiag' and i == j
            f = sp.Function(f'g{i}{j}')(*(coords[:1] if restricted else coords))
            fun[i, j] = fun[j, i] = f
            J = Jet.fresh(f'g{i}{j}', dim, 2)
            if restricted:
                J = Jet(dim, 2, {k: (J.c[k] if all(a == 0 for a in k) else tm.ZERO) for k in jet_keys(dim, 2)})
            jets[i, j] = jets[j, i] = J
            for k in jet_keys(dim, 2):
                if restricted and any(a != 0 for a in k):
                    continue
                if not k:
                    atom_map[f] = J.c[k]
                else:
                    atom_map[sp.Derivative(f, *[coords[a] for a in k]).doit()] = J.c[k]
                    # sympy canonicalises derivative variable order; register all orderings
                    for perm in set(itertools.permutations(k)):
                        atom_map[sp.diff(f, *[coords[a] for a in perm])] = J.c[k]
    g = sp.Matrix(dim, dim, lambda i, j: fun[i, j])
    return coords, g, jets, atom_map, []


def polynomial_metric(dim):
    """committed family of polynomial, fully non-diagonal metrics with symbolic parameters"""
    coords = sp.symbols(f'x0:{dim}')
    a, b, c = sp.symbols('pa pb pc')
    x = coords
    entries = {}
    for i in range(dim):
        for j in range(i, dim):
            if i == j:
                e = (2 + i) + a * x[(i + 1) % dim] ** 2 + (i + 1) * x[i] * x[(i + 2) % dim] if dim > 2 else (2 + i) + a * x[(i + 1) % dim] ** 2
                if dim == 4 and i == 0:
                    e = -e
            else:
                e = b * x[i] * x[j] + c * (i + 2 * j + 1) * x[(i + j) % dim] + sp.Rational(1, 3 + i + j)
            entries[i, j] = entries[j, i] = sp.expand(e)
    g = sp.Matrix(dim, dim, lambda i, j: entries[i, j])
    atom_map = {s: tm.var(str(s)) for s in list(coords) + [a, b, c]}
    trn = Translator(atom_map)
    jets = oracle.arr((dim, dim))
    for i in range(dim):
        for j in range(i, dim):
            cs = {}
            for k in jet_keys(dim, 2):
                cs[k] = trn.tr(sp.expand(sp.diff(entries[i, j], *[coords[q] for q in k])) if k else entries[i, j])
            jets[i, j] = jets[j, i] = Jet(dim, 2, cs)
    return coords, g, jets, atom_map, []


def oracle_values(jets, dim):
    g0 = oracle.truncate(jets, 0)
    gi = oracle.inverse(jets)
    gi0 = oracle.truncate(gi, 0)
    G = oracle.christoffel(jets, gi)
    Ru = oracle.riemann_uddd(G)
    Rd = oracle.lower_first(Ru, g0)
    Ric = oracle.ricci(Ru)
    RS = oracle.trace(gi0, Ric)
    Gd = np.einsum('im,mjk->ijk', g0, oracle.truncate(G, 0))
    Ein = Ric - 0.5 * RS * g0
    return dict(gup=gi0, gdet=oracle.det(g0), Gamma_udd=oracle.truncate(G, 0), Gamma_down=Gd, Riemann_uddd=Ru,
                Riemann_down=Rd, Ricci_down=Ric, RicciS=RS, Einstein_down=Ein)


def elem(v, idx):
    if isinstance(v, (sp.MatrixBase,)):
        return v[idx] if len(idx) == 2 else v[idx[0]]
    if isinstance(v, sp.NDimArray):
        return v[idx]
    return v


ORDERS = {
    'fresh-each': None,
    'Riemann_uddd-first': ['gup', 'gdet', 'Gamma_udd', 'Gamma_down', 'Riemann_uddd', 'Riemann_down', 'Ricci_down', 'RicciS', 'Einstein_down'],
    'Riemann_down-first': ['Riemann_down', 'Ricci_down', 'Einstein_down', 'RicciS', 'Riemann_uddd', 'Gamma_down', 'Gamma_udd', 'gdet', 'gup'],
}


def run_case(args):
    dim, simplify, family, order_name, tier = args
    from aurel.coresymbolic import AurelCoreSymbolic
    name = f"dim={dim} simplify={simplify} metric={family} order={order_name}"
    t0 = time.time()
    cut = family.endswith('+gupcut')
    if family.startswith('generic'):
        coords, g, jets, atom_map, pre = generic_metric(dim, structure=family.split(':')[1] if ':' in family else None)
    else:
        coords, g, jets, atom_map, pre = polynomial_metric(dim)
    want = oracle_values(jets, dim)
    U = None
    if cut:
        # cut point: the inverse metric is handed to the code as undetermined functions U_ij(x) whose jets are
        # those of the exact inverse (gup itself is verified without the cut where sympy's inverse is affordable)
        gi = oracle.inverse(jets)
        ufun = {}
        for i in range(dim):
            for j in range(i, dim):
                f = sp.Function(f'U{i}{j}')(*coords)
                ufun[i, j] = ufun[j, i] = f
                for k in jet_keys(dim, 1):
                    atom_map[sp.diff(f, *[coords[a] for a in k]) if k else f] = gi[i, j].c[k]
        U = sp.Matrix(dim, dim, lambda i, j: ufun[i, j])
    trn = Translator(atom_map)
    gval = [[jets[i, j].c[()] for j in range(dim)] for i in range(dim)]
    detg = oracle.det(oracle.truncate(jets, 0))
    pre = [tm.ne(detg.c[()] if isinstance(detg, Jet) else (detg.t if isinstance(detg, SymReal) else tm.const(detg)), tm.ZERO)]
    results = {}
    order = ORDERS[order_name]

    def compute(rel, q):
        return rel[q]
    quantities = [q for q in QUANTITIES if not (cut and q in ('gup', 'gdet'))]
    if order is None:
        for q in quantities:
            rel = AurelCoreSymbolic(coords, verbose=False, simplify=simplify)
            rel.data['gdown'] = g
            if cut:
                rel.data['gup'] = U
            results[q] = compute(rel, q)
    else:
        rel = AurelCoreSymbolic(coords, verbose=False, simplify=simplify)
        rel.data['gdown'] = g
        if cut:
            rel.data['gup'] = U
        for q in order:
            if q in quantities:
                results[q] = compute(rel, q)
    t_sym = time.time() - t0
    obs = []
    err = None
    for q in quantities:
        v = results[q]
        w = want[q]
        shape = () if not hasattr(w, 'shape') or w.shape == () else w.shape
        comps = list(np.ndindex(*shape)) if shape else [()]
        if tier == 'quick' and len(comps) > 40:
            comps = comps[::max(1, len(comps) // 40)]
        for idx in comps:
            e = elem(v, idx) if shape else v
            try:
                impl = trn.tr(sp.sympify(e))
            except ValueError as ex:
                err = f"{q}{list(idx)}: {ex}"
                continue
            ww = w[idx] if shape else w
            wt = ww.c[()] if isinstance(ww, Jet) else (ww.t if isinstance(ww, SymReal) else tm.const(ww))
            obs.append(Ob(f"{name}: {q}{list(idx)}", impl, wt, pre, group=f"dim={dim} simplify={simplify} {family}: {q}",
                          meta=dict(q=q, idx=list(idx))))

    def sampler(rng):
        env = {}
        for t in tm.free_vars([o.impl for o in obs] + [o.oracle for o in obs]):
            env[t.val] = F(rng.choice([x for x in range(-6, 7) if x]), 4)
        for i in range(dim):          # diagonally dominant values keep det != 0
            nm = f'g{i}{i}'
            if nm in env:
                env[nm] = F(7 + i, 1) * (-1 if (dim == 4 and i == 0) else 1)
        return env
    import random
    env_val = {}
    for i in range(dim):
        for j in range(i, dim):
            env_val[f'g{i}{j}'] = (F(7 + i) * (-1 if (dim == 4 and i == 0) else 1)) if i == j else F(i + 2 * j + 1, 4)
    rungs = [dict(name='full', envs=[None], timeout=60 if tier == 'quick' else 300),
             dict(name='slices:metric-value-fixed', envs=[env_val], timeout=120 if tier == 'quick' else 600)]
    solve_ladder(obs, rungs, sampler=sampler if family.startswith('generic') else None, rng=random.Random(dim), workers=2)
    out = []
    for o in obs:
        r = o.result
        rec = dict(name=o.name, verdict=r['verdict'], seconds=round(r['seconds'], 3), backend=r.get('backend', 'z3old'), sha=r['sha'],
                   group=o.group, trivial=r.get('trivial', False), kind='identity', detail=r['rung'])
        if r['verdict'] == 'sat':
            a, b = eval_terms([o.impl, o.oracle], r['model'])
            rec['model'] = {k: str(v) for k, v in r['model'].items() if v is not None}
            rec['impl_value'], rec['oracle_value'] = str(a), str(b)
            rec['q'], rec['idx'] = o.meta['q'], o.meta['idx']
        out.append(rec)
    return dict(name=name, obs=out, error=err, seconds=round(time.time() - t0, 1), sympy_seconds=round(t_sym, 1),
                stats=solver.STATS.as_dict(), args=list(args))


def replay_numeric(args, q, idx, model):
    """Independent numeric replay: substitute a concrete polynomial metric realising the jet model into the real
    AurelCoreSymbolic and compare with sympy's own textbook computation evaluated at the point."""
    dim, simplify, family, order_name, tier = args
    from aurel.coresymbolic import AurelCoreSymbolic
    coords = sp.symbols(f'x0:{dim}')
    if family.startswith('generic'):
        ent = {}
        for i in range(dim):
            for j in range(i, dim):
                e = 0
                for k in jet_keys(dim, 2):
                    nm = f'g{i}{j}' + ('' if not k else '_d' + ''.join(map(str, k)))
                    c = sp.Rational(str(F(model.get(nm, '0'))))
                    mono = 1
                    mult = 1
                    for a in set(k):
                        mono *= coords[a] ** k.count(a)
                        mult *= sp.factorial(k.count(a))
                    e += c * mono / mult
                ent[i, j] = ent[j, i] = e
        g = sp.Matrix(dim, dim, lambda i, j: ent[i, j])
        point = {c: 0 for c in coords}
    else:
        _, g, _, _, _ = polynomial_metric(dim)
        point = {sp.Symbol(k): sp.Rational(str(F(v))) for k, v in model.items()}
    rel = AurelCoreSymbolic(coords, verbose=False, simplify=simplify)
    rel.data['gdown'] = g
    order = ORDERS[order_name]
    if order:
        for qq in order:
            rel[qq]
            if qq == q:
                break
    got = elem(rel[q], tuple(idx)) if idx else rel[q]
    got = sp.nsimplify(sp.sympify(got).subs(point))
    # textbook value with plain sympy
    gi = g.inv()
    Gm = [[[sum(gi[a, m] * (sp.diff(g[m, c], coords[b]) + sp.diff(g[m, b], coords[c]) - sp.diff(g[b, c], coords[m])) for m in range(dim)) / 2
            for c in range(dim)] for b in range(dim)] for a in range(dim)]

    def R(a, b, c, d):
        return (sp.diff(Gm[a][b][d], coords[c]) - sp.diff(Gm[a][b][c], coords[d])
                + sum(Gm[a][c][e] * Gm[e][b][d] - Gm[a][d][e] * Gm[e][b][c] for e in range(dim)))

    def Ric(b, d):
        return sum(R(a, b, a, d) for a in range(dim))
    if q == 'gup':
        want = gi[tuple(idx)]
    elif q == 'gdet':
        want = g.det()
    elif q == 'Gamma_udd':
        want = Gm[idx[0]][idx[1]][idx[2]]
    elif q == 'Gamma_down':
        want = sum(g[idx[0], m] * Gm[m][idx[1]][idx[2]] for m in range(dim))
    elif q == 'Riemann_uddd':
        want = R(*idx)
    elif q == 'Riemann_down':
        want = sum(g[idx[0], m] * R(m, idx[1], idx[2], idx[3]) for m in range(dim))
    elif q == 'Ricci_down':
        want = Ric(*idx)
    else:
        RS = sum(gi[a, b] * Ric(a, b) for a in range(dim) for b in range(dim))
        want = RS if q == 'RicciS' else Ric(*idx) - g[tuple(idx)] * RS / 2
    want = sp.nsimplify(sp.sympify(want).subs(point))
    diff = sp.simplify(got - want)
    return dict(got=str(got), want=str(want), reproduces=bool(diff != 0))


def cases(tier):
    out = []
    for order in ORDERS:
        out.append((2, False, 'generic', order, tier))
        out.append((3, False, 'generic', order, tier))
    # structured metrics: shortcuts keyed on vanishing components / on which coordinates an entry depends on
    for order in ('Riemann_uddd-first', 'Riemann_down-first'):
        out.append((2, False, 'generic:null', order, tier))
        out.append((2, False, 'generic:offdiag', order, tier))
        if tier == 'thorough':
            out.append((3, False, 'generic:null', order, tier))
            out.append((3, False, 'generic:offdiag', order, tier))
    out.append((2, True, 'generic', 'fresh-each', tier))
    out.append((2, True, 'generic', 'Riemann_uddd-first', tier))
    out.append((4, False, 'generic+gupcut', 'Riemann_uddd-first', tier))
    out.append((4, False, 'generic+gupcut', 'Riemann_down-first', tier))
    if tier == 'thorough':
        out.append((3, True, 'generic+gupcut', 'Riemann_uddd-first', tier))
        out.append((2, True, 'generic', 'Riemann_down-first', tier))
        out.append((3, True, 'generic+gupcut', 'Riemann_down-first', tier))
        # measured: (4, True, generic+gupcut) and (3, True, polynomial) do not finish in 20 min (sympy.simplify) - not part of any tier
    return out


def defaults_and_errors(report):
    """default Minkowski branches and the unsupported-dimension error (concrete)"""
    from aurel.coresymbolic import AurelCoreSymbolic
    ok = True
    for dim, sig in ((3, [1, 1, 1]), (4, [-1, 1, 1, 1])):
        rel = AurelCoreSymbolic(sp.symbols(f'x0:{dim}'), verbose=False, simplify=False)
        ok &= rel['gdown'] == sp.diag(*sig) and all(x == 0 for x in sp.flatten(rel['Ricci_down'].tolist()))
    try:
        AurelCoreSymbolic(sp.symbols('x0:2'), verbose=False)['gdown']
        ok = False
    except ValueError:
        pass
    report.record('default metric is Minkowski for dim 3, 4; other dimensions raise', 'holds' if ok else 'sat',
                  group='defaults (concrete)', kind='concrete', trivial=True)
    if not ok:
        report.violation('defaults', 'default gdown is not Minkowski / unsupported dimension does not raise', report.write_replay('defaults', {}))


def main(report, tier, seed, workers, calibrate=False):
    cs = cases(tier)
    report.bounds = dict(dimensions=[2, 3, 4], metrics='undetermined functions of all coordinates in every entry (simplify=False: dim 2-4; '
                         'simplify=True: dim 2 quick, dim 2-3 thorough (inverse metric cut in 3D))',
                         request_orders=list(ORDERS), components='all (thorough) / up to 40 per quantity (quick)', jet_order=2,
                         outside=['metrics with non-rational entries', 'sympy.simplify on generic 4D metrics and on the polynomial 3D family (measured: not finished in 20 min)'])
    report.assumptions += ['det g != 0', 'sympy.diff on the metric entries is correct (basic operation); sympy.simplify IS inside the check']
    report.stubs += ['none: the real AurelCoreSymbolic runs on sympy objects; results are translated atom-by-atom into SMT terms']
    with FuncTrace() as ft:
        run_case((2, False, 'generic', 'fresh-each', tier))
    report.functions |= ft.seen
    report.extra['source_sha1'] = source_digest(FILES)
    with mp.Pool(min(workers // 2, len(cs))) as pool:
        results = pool.map(run_case, cs, chunksize=1)
    seen = set()
    for res in results:
        st = res['stats']
        solver.STATS.queries += st['queries']
        solver.STATS.seconds += st['solver_seconds']
        for k_, v_ in st.get('by_verdict', {}).items():
            solver.STATS.by_verdict[k_] = solver.STATS.by_verdict.get(k_, 0) + v_
        for k_, v_ in st.get('by_backend', {}).items():
            solver.STATS.by_backend[k_] = solver.STATS.by_backend.get(k_, 0) + v_
        report.extra.setdefault('sympy_seconds', {})[res['name']] = res['sympy_seconds']
        if res['error']:
            report.harness_errors.append(f"{res['name']}: translation failed: {res['error']}")
        for o in res['obs']:
            model = o.pop('model', None)
            q, idx = o.pop('q', None), o.pop('idx', None)
            iv, ov = o.pop('impl_value', None), o.pop('oracle_value', None)
            report.obs.append(o)
            if o['verdict'] == 'unknown':
                report.inconc(o['name'], 'not settled')
            elif o['verdict'] == 'sat':
                key = f"{q} simplify={res['args'][1]} order={res['args'][3]}"
                if key in seen:
                    continue
                try:
                    rp = replay_numeric(tuple(res['args']), q, idx, model)
                except Exception as e:  # noqa
                    report.harness_errors.append(f"replay of {o['name']} raised {e!r}")
                    continue
                if rp['reproduces']:
                    seen.add(key)
                    path = report.write_replay(key, dict(args=res['args'], q=q, idx=idx, model=model, replay=rp))
                    report.violation(key, f"{o['name']}: AurelCoreSymbolic gives {rp['got']}, textbook {rp['want']}", path)
                else:
                    report.harness_errors.append(f"{o['name']}: solver model does not reproduce in sympy: {rp}")
    defaults_and_errors(report)


def replay_payload(payload):
    rp = replay_numeric(tuple(payload['args']), payload['q'], payload['idx'], payload['model'])
    print(rp)
    return 1 if rp['reproduces'] else 0
