#!/bin/bash
# tools/seed_recheck.sh <seeded dir name> <ID> : re-run check <ID> against seeded/<dir>/patch.diff (scratch worktree) and
# record the outcome in seeded/<dir>/meta.json under "after_strengthening".
D=$1; ID=$2
OUT=$(TAILN=200 /verif/tools/mutant_run.sh /verif/seeded/$D/patch.diff $ID 2>&1)
EXIT=$(echo "$OUT" | grep -o "^exit=[0-9]*" | tail -1 | cut -d= -f2)
NV=$(echo "$OUT" | grep -c "^VIOLATION")
FIRST=$(echo "$OUT" | grep -A1 "^VIOLATION" | sed -n 2p | cut -c1-300)
python3 - "$D" "$ID" "$EXIT" "$NV" "$FIRST" <<'PY'
import json,sys
d,ID,ex,nv,first=sys.argv[1:6]
p=f'/verif/seeded/{d}/meta.json'; m=json.load(open(p))
m.setdefault('after_strengthening',{})[ID]=dict(cmd=f'AUREL_REPO=<wt> ./check {ID} --tier quick', exit=int(ex or -1), violations=int(nv), first=first)
json.dump(m,open(p,'w'),indent=1)
print(d,ID,'exit',ex,'violations',nv)
PY
