"""C09 - fluid variables give the textbook stress-energy tensor and Eulerian projections
(pointwise; all reals for lapse > 0, shift, SPD metric, |v| < 1, rho0, eps, press)."""
import itertools

import numpy as np
from fractions import Fraction as F

from symx import term as tm, oracle
from symx.sym import Ctx, use_ctx, sym, symarray, SymReal, Inconclusive
from symx.npproxy import patched
from symx.harness import Ob, FuncTrace, JetRun, source_digest
from . import gr
from .common import process_jet, vacuity, witness_sat

PID = 'C09'
FILES = ['src/aurel/core.py', 'src/aurel/maths.py']
POINT_RES = ((3, 1.0), (3, 0.5))


class FluidSetup:
    def __init__(self, pattern='fluid', rho0_case='ge0'):
        self.al = symarray('al', ())
        self.be = symarray('b', (3,))
        self.ga = symarray('g', (3, 3), symmetric=True)
        gv = [[self.ga[i, j, 0, 0, 0].t for j in range(3)] for i in range(3)]
        self.pre = oracle.spd_preconditions(gv) + [tm.lt(tm.ZERO, self.al[0, 0, 0].t)]
        al, be, ga = self.al[0, 0, 0], gr.ungrid(self.be), gr.ungrid(self.ga)
        # oracle metric objects
        self.bd = np.einsum('i,ij->j', be, ga)
        g4 = oracle.arr((4, 4))
        g4[0, 0] = -al * al + np.einsum('i,i->', be, self.bd)
        for i in range(3):
            g4[0, i + 1] = g4[i + 1, 0] = self.bd[i]
            for j in range(3):
                g4[i + 1, j + 1] = ga[i, j]
        self.g4 = g4
        self.gi4 = oracle.inverse(g4)
        self.gi3 = oracle.inverse(ga)
        self.n_up = np.array([1 / al, -be[0] / al, -be[1] / al, -be[2] / al], dtype=object)
        inputs = dict(alpha=self.al, betaup3=self.be, gammadown3=self.ga)
        self.pattern = pattern
        if pattern == 'fluid':
            self.rho0, self.eps, self.p = sym('rho0'), sym('eps'), sym('press')
            self.rho0_case = rho0_case
            if rho0_case == 'zero':
                self.rho0 = SymReal(tm.ZERO)
            self.W = sym('W')
            self.v = [sym(f'v{i}') for i in range(3)]
            v2 = sum(ga[i, j] * self.v[i] * self.v[j] for i in range(3) for j in range(3))
            self.pre += [tm.lt(tm.ZERO, self.W.t),
                         tm.eq((self.W * self.W * (1 - v2)).t, tm.ONE),
                         (tm.lt(tm.ZERO, self.rho0.t) if rho0_case == 'gt0' else tm.le(tm.ZERO, self.rho0.t))]
            inputs.update(rho0=gr.grid(self.rho0), eps=gr.grid(self.eps), press=gr.grid(self.p),
                          w_lorentz=gr.grid(self.W), velx=gr.grid(self.v[0]), vely=gr.grid(self.v[1]),
                          velz=gr.grid(self.v[2]))
        elif pattern == 'T':
            self.T = symarray('T', (4, 4), symmetric=True)
            inputs.update(Tdown4=self.T)
        self.run = JetRun(3, inputs, self.pre, fdkind='unint', resolutions=POINT_RES, fd_order=2)

    def sampler(self):
        from fractions import Fraction as F

        def f(rng):
            env = {}
            for (i, j), v in gr.DESIGNED_GAMMA[rng.randrange(2)].items():
                env[f'g{i}{j}'] = F(v)
            env['al'] = F(rng.randint(4, 16), 8)
            for i in range(3):
                env[f'b{i}'] = F(rng.randint(-8, 8), 8)
            if self.pattern == 'fluid':
                # W rational: pick v along a direction with gamma-norm making 1 - v^2 a rational square
                # simplest: v = 0 except one component scaled so that v^2 = 16/25 is hard in general;
                # use W from v numerically is irrational -> choose v = 0 for the exact prescreen point
                env.update(rho0=F(rng.randint(1, 16), 8), eps=F(rng.randint(-4, 8), 8),
                           press=F(rng.randint(0, 8), 8), W=F(1), v0=F(0), v1=F(0), v2=F(0))
            else:
                for i in range(4):
                    for j in range(i, 4):
                        env[f'T{i}{j}'] = F(rng.randint(-8, 8), 8)
            return env
        return f


def sampler_moving(S):
    """Admissible points with non-zero velocity: v chosen along x^0 with g00 v^2 = 9/25, W = 5/4
    (needs g00 a rational square: designed metrics have g00 = 16 and 4)."""
    from fractions import Fraction as F

    def f(rng):
        w = rng.randrange(2)
        env = {}
        for (i, j), v in gr.DESIGNED_GAMMA[w].items():
            env[f'g{i}{j}'] = F(v)
        root = F(4) if w == 0 else F(2)
        env['al'] = F(rng.randint(4, 16), 8)
        for i in range(3):
            env[f'b{i}'] = F(rng.choice([-7, -3, 2, 5]), 8)
        env.update(rho0=F(rng.randint(1, 16), 8), eps=F(rng.randint(1, 8), 8),
                   press=F(rng.randint(1, 8), 8), W=F(5, 4), v0=F(3, 5) / root, v1=F(0), v2=F(0))
        return env
    return f


def build(tier):
    blocks = []
    with patched():
        def fluid_block(S, name):
            c = Ctx(pre=S.pre, fork=False)
            obs = []
            with use_ctx(c):
                rel = S.run.symbolic_rel()
                al, W, p = S.al[0, 0, 0], S.W, S.p
                rho = S.rho0 * (1 + S.eps)
                ga, g4, gi4, gi3 = gr.ungrid(S.ga), S.g4, S.gi4, S.gi3
                v_up = S.v
                v_dn = [sum(ga[i, j] * v_up[j] for j in range(3)) for i in range(3)]
                u_up = [W / al] + [W * (v_up[i] - gr.ungrid(S.be)[i] / al) for i in range(3)]
                u_dn = [sum(g4[a, b] * u_up[b] for b in range(4)) for a in range(4)]

                def P(name, impl, want, group, get=None):
                    obs.append(Ob(name, impl, want, S.pre, group=group, get=get))

                uu, ud = rel['uup4'], rel['udown4']
                for a in range(4):
                    P(f'uup4[{a}]', uu[a, 0, 0, 0], u_up[a], 'uup4 == (W/alpha, W(v^i - beta^i/alpha))',
                      get=lambda r, a=a: r['uup4'][a])
                    P(f'udown4[{a}]', ud[a, 0, 0, 0], u_dn[a], 'udown4 == g u^mu',
                      get=lambda r, a=a: r['udown4'][a])
                P('u^mu u_mu', sum(uu[a, 0, 0, 0] * ud[a, 0, 0, 0] for a in range(4)), -1, 'u.u == -1')
                P('g_mn u^m u^n', sum(g4[a, b] * uu[a, 0, 0, 0] * uu[b, 0, 0, 0] for a in range(4) for b in range(4)),
                  -1, 'u.u == -1')
                P('g^mn u_m u_n', sum(gi4[a, b] * ud[a, 0, 0, 0] * ud[b, 0, 0, 0] for a in range(4) for b in range(4)),
                  -1, 'u.u == -1')
                hd, hm, hu = rel['hdown4'], rel['hmixed4'], rel['hup4']
                h_or = oracle.arr((4, 4))
                for a in range(4):
                    for b in range(4):
                        h_or[a, b] = g4[a, b] + u_dn[a] * u_dn[b]
                T, Tu = rel['Tdown4'], rel['Tup4']
                for a in range(4):
                    P(f'hmixed4 u [{a}]', sum(hm[a, b, 0, 0, 0] * uu[b, 0, 0, 0] for b in range(4)), 0,
                      'h^mu_nu u^nu == 0')
                    for b in range(a, 4):
                        P(f'hdown4[{a},{b}]', hd[a, b, 0, 0, 0], h_or[a, b], 'hdown4 == g + u_mu u_nu',
                          get=lambda r, a=a, b=b: r['hdown4'][a, b])
                        P(f'hup4[{a},{b}]', hu[a, b, 0, 0, 0],
                          sum(gi4[a, c2] * gi4[b, d] * h_or[c2, d] for c2 in range(4) for d in range(4)),
                          'hup4 == raise(hdown4)')
                        P(f'hmixed4[{a},{b}]', hm[a, b, 0, 0, 0], sum(gi4[a, c2] * h_or[c2, b] for c2 in range(4)),
                          'hmixed4 == g^{mu a} h_{a nu}')
                        Tw = rho * u_dn[a] * u_dn[b] + p * h_or[a, b]
                        P(f'Tdown4[{a},{b}]', T[a, b, 0, 0, 0], Tw, 'Tdown4 == rho u_mu u_nu + p h_mu_nu',
                          get=lambda r, a=a, b=b: r['Tdown4'][a, b])
                        P(f'Tup4[{a},{b}]', Tu[a, b, 0, 0, 0],
                          sum(gi4[a, c2] * gi4[b, d] * (rho * u_dn[c2] * u_dn[d] + p * h_or[c2, d])
                              for c2 in range(4) for d in range(4)), 'Tup4 == raise(T)')
                P('Ttrace(cached T)', rel['Ttrace'][0, 0, 0], -rho + 3 * p, 'Ttrace == -rho + 3p',
                  get=lambda r: r['Ttrace'])
                E = (rho + p) * W * W
                P('rho', rel['rho'][0, 0, 0], rho, 'rho == rho0 (1+eps)')
                P('rho_n', rel['rho_n'][0, 0, 0], E - p, 'rho_n == (rho+p) W^2 - p', get=lambda r: r['rho_n'])
                fd_, fu_ = rel['fluxdown3_n'], rel['fluxup3_n']
                Sd, Su = rel['Stressdown3_n'], rel['Stressup3_n']
                an = rel['anisotropic_press_down3_n']
                for i in range(3):
                    P(f'fluxdown3_n[{i}]', fd_[i, 0, 0, 0], E * v_dn[i], 'fluxdown3_n == (rho+p) W^2 v_i',
                      get=lambda r, i=i: r['fluxdown3_n'][i])
                    P(f'fluxup3_n[{i}]', fu_[i, 0, 0, 0], E * v_up[i], 'fluxup3_n == (rho+p) W^2 v^i',
                      get=lambda r, i=i: r['fluxup3_n'][i])
                    for j in range(i, 3):
                        P(f'Stressdown3_n[{i},{j}]', Sd[i, j, 0, 0, 0], E * v_dn[i] * v_dn[j] + p * ga[i, j],
                          'Stressdown3_n == (rho+p) W^2 v_i v_j + p gamma_ij',
                          get=lambda r, i=i, j=j: r['Stressdown3_n'][i, j])
                        P(f'Stressup3_n[{i},{j}]', Su[i, j, 0, 0, 0], E * v_up[i] * v_up[j] + p * gi3[i, j],
                          'Stressup3_n == raise')
                v2 = sum(v_up[i] * v_dn[i] for i in range(3))
                P('Stresstrace_n', rel['Stresstrace_n'][0, 0, 0], E * v2 + 3 * p, 'Stresstrace_n == E v^2 + 3p',
                  get=lambda r: r['Stresstrace_n'])
                P('press_n', rel['press_n'][0, 0, 0], (E * v2 + 3 * p) / 3, 'press_n == S/3', get=lambda r: r['press_n'])
                P('trace(anisotropic_press)', sum(gi3[i, j] * an[i, j, 0, 0, 0] for i in range(3) for j in range(3)),
                  0, 'anisotropic pressure trace-free',
                  get=lambda r: np.einsum('ij...,ij...->...', r['gammaup3'], r['anisotropic_press_down3_n']))
                for i in range(3):
                    for j in range(i, 3):
                        P(f'anisotropic_press_down3_n[{i},{j}]', an[i, j, 0, 0, 0],
                          E * v_dn[i] * v_dn[j] + p * ga[i, j] - ga[i, j] * (E * v2 + 3 * p) / 3,
                          'anisotropic_press_down3_n == S_ij - gamma_ij S/3',
                          get=lambda r, i=i, j=j: r['anisotropic_press_down3_n'][i, j])
                sg = oracle.det(ga).sqrt() if hasattr(oracle.det(ga), 'sqrt') else None
                D = rel['conserved_D'][0, 0, 0]
                P('conserved_D', D, S.rho0 * W * sg, 'conserved_D == rho0 W sqrt(gamma)',
                  get=lambda r: r['conserved_D'])
                P('conserved_E', rel['conserved_E'][0, 0, 0], S.rho0 * W * sg * S.eps, 'conserved_E == D eps')
                # angular momentum density J_i = eps_ijk x^j S^k with free coordinate values
                xs = [sym('cx'), sym('cy'), sym('cz')]
                cc = np.empty((3, 1, 1, 1), dtype=object)
                for i_ in range(3):
                    cc[i_, 0, 0, 0] = xs[i_]
                rel.fd.cartesian_coords = cc
                Jd, Ju = rel['angmomdown3_n'], rel['angmomup3_n']
                Sup = [E * v_up[i_] for i_ in range(3)]
                Jw = []
                for i_ in range(3):
                    tot = 0
                    for j_ in range(3):
                        for k_ in range(3):
                            if len({i_, j_, k_}) == 3:
                                tot = tot + oracle.perm_sign((i_, j_, k_)) * sg * xs[j_] * Sup[k_]
                    Jw.append(tot)
                for i_ in range(3):
                    P(f'angmomdown3_n[{i_}]', Jd[i_, 0, 0, 0], Jw[i_], 'angmomdown3_n == sqrt(gamma) [ijk] x^j S^k')
                    P(f'angmomup3_n[{i_}]', Ju[i_, 0, 0, 0], sum(gi3[i_, j_] * Jw[j_] for j_ in range(3)), 'angmomup3_n == raise(J_i)')
            blocks.append(dict(name=name, setup=S, run=S.run, obs=obs, ctx=c,
                               samplers=[S.sampler(), sampler_moving(S)]))

        # rho0 >= 0 in one run when the real code does not branch on rho0 on these paths; if it does (undecided branch in
        # the non-forking harness), the admissible domain is split at its boundary: rho0 > 0 and rho0 == 0 exactly
        try:
            fluid_block(FluidSetup('fluid'), 'fluid')
        except Inconclusive:
            blocks[:] = [b_ for b_ in blocks if not b_['name'].startswith('fluid')]
            fluid_block(FluidSetup('fluid', rho0_case='gt0'), 'fluid[rho0>0]')
            fluid_block(FluidSetup('fluid', rho0_case='zero'), 'fluid[rho0=0]')

        # enthalpy-dependent quantities need rho0 > 0 (no 0/0 demanded of the code)
        S2 = FluidSetup('fluid')
        pre2 = S2.pre + [tm.lt(tm.ZERO, S2.rho0.t)]
        c2 = Ctx(pre=pre2, fork=False)
        obs2 = []
        with use_ctx(c2):
            rel2 = S2.run.symbolic_rel()
            h = 1 + S2.eps + S2.p / S2.rho0
            obs2.append(Ob('enthalpy', rel2['enthalpy'][0, 0, 0], h, pre2, group='enthalpy == 1 + eps + p/rho0',
                           get=lambda r: r['enthalpy']))
            obs2.append(Ob('rho_n (enthalpy form)', rel2['rho_n'][0, 0, 0],
                           S2.rho0 * h * S2.W * S2.W - S2.p, pre2, group='rho_n == rho0 h W^2 - p'))
            sg = oracle.det(gr.ungrid(S2.ga)).sqrt()
            ud = rel2['udown4']
            Sc = rel2['conserved_Sdown4']
            for a in range(4):
                obs2.append(Ob(f'conserved_Sdown4[{a}]', Sc[a, 0, 0, 0],
                               S2.rho0 * S2.W * sg * h * ud[a, 0, 0, 0], pre2, group='conserved_S == D h u_mu'))
        S2.run.pre = pre2
        blocks.append(dict(name='fluid(rho0>0)', setup=S2, run=S2.run, obs=obs2, ctx=c2, pre=pre2,
                           samplers=[S2.sampler(), sampler_moving(S2)]))

        # total energy density supplied instead of the specific internal energy: inputs rho, rho0 (eps derived)
        S4 = FluidSetup('fluid')
        rho4 = sym('rho')
        inputs4 = {k_: v_ for k_, v_ in S4.run.inputs.items() if k_ != 'eps'}
        inputs4['rho'] = gr.grid(rho4)
        pre4 = S4.pre + [tm.lt(tm.ZERO, S4.rho0.t), tm.lt(tm.ZERO, rho4.t)]
        run4 = JetRun(3, inputs4, pre4, fdkind='unint', resolutions=POINT_RES, fd_order=2)
        c4 = Ctx(pre=pre4, fork=False)
        obs4 = []
        with use_ctx(c4):
            rel4 = run4.symbolic_rel()
            eps4 = (rho4 - S4.rho0) / S4.rho0
            h4 = 1 + eps4 + S4.p / S4.rho0
            sg4 = oracle.det(gr.ungrid(S4.ga)).sqrt()
            grp = 'rho and rho0 supplied: eps == (rho - rho0)/rho0 and what is built on it'
            obs4.append(Ob('rho-rho0: eps', rel4['eps'][0, 0, 0], eps4, pre4, group=grp, get=lambda r: r['eps']))
            obs4.append(Ob('rho-rho0: rho', rel4['rho'][0, 0, 0], rho4, pre4, group=grp, get=lambda r: r['rho']))
            obs4.append(Ob('rho-rho0: enthalpy', rel4['enthalpy'][0, 0, 0], h4, pre4, group=grp, get=lambda r: r['enthalpy']))
            obs4.append(Ob('rho-rho0: conserved_E', rel4['conserved_E'][0, 0, 0], S4.rho0 * S4.W * sg4 * eps4, pre4, group=grp,
                           get=lambda r: r['conserved_E']))
            obs4.append(Ob('rho-rho0: rho_n', rel4['rho_n'][0, 0, 0], (rho4 + S4.p) * S4.W * S4.W - S4.p, pre4, group=grp,
                           get=lambda r: r['rho_n']))
            obs4.append(Ob('rho-rho0: Ttrace', rel4['Ttrace'][0, 0, 0], -rho4 + 3 * S4.p, pre4, group=grp, get=lambda r: r['Ttrace']))

        class _S4:
            pre = pre4
            run = run4

            @staticmethod
            def sampler():
                base = S4.sampler()

                def f(rng):
                    env = base(rng)
                    env.pop('eps', None)
                    env['rho'] = F(rng.randint(1, 24), 8)
                    return env
                return f
        blocks.append(dict(name='fluid(rho, rho0 supplied)', setup=_S4, run=run4, obs=obs4, ctx=c4, pre=pre4, samplers=[_S4.sampler()]))

        # stress-energy tensor supplied directly
        ST = FluidSetup('T')
        cT = Ctx(pre=ST.pre, fork=False)
        obsT = []
        with use_ctx(cT):
            relT = ST.run.symbolic_rel()
            T0 = gr.ungrid(ST.T)
            n = ST.n_up
            gi3, gi4, ga = ST.gi3, ST.gi4, gr.ungrid(ST.ga)
            Tnn = sum(T0[a, b] * n[a] * n[b] for a in range(4) for b in range(4))
            obsT.append(Ob('T:rho_n', relT['rho_n'][0, 0, 0], Tnn, ST.pre, group='T given: rho_n == T n n',
                           get=lambda r: r['rho_n']))
            fu = relT['fluxup3_n']
            fdn = relT['fluxdown3_n']
            for i in range(3):
                want = -sum(gi3[i, j] * T0[j + 1, b] * n[b] for j in range(3) for b in range(4))
                obsT.append(Ob(f'T:fluxup3_n[{i}]', fu[i, 0, 0, 0], want, ST.pre,
                               group='T given: fluxup3_n == -gamma^{ij} T_{j nu} n^nu',
                               get=lambda r, i=i: r['fluxup3_n'][i]))
                wantd = -sum(T0[i + 1, b] * n[b] for b in range(4))
                obsT.append(Ob(f'T:fluxdown3_n[{i}]', fdn[i, 0, 0, 0], wantd, ST.pre,
                               group='T given: fluxdown3_n == -T_{i nu} n^nu'))
            Sd = relT['Stressdown3_n']
            for i in range(3):
                for j in range(3):
                    obsT.append(Ob(f'T:Stressdown3_n[{i},{j}]', Sd[i, j, 0, 0, 0], T0[i + 1, j + 1], ST.pre,
                                   group='T given: Stressdown3_n == T_ij'))
            Str = sum(gi3[i, j] * T0[i + 1, j + 1] for i in range(3) for j in range(3))
            obsT.append(Ob('T:Stresstrace_n', relT['Stresstrace_n'][0, 0, 0], Str, ST.pre,
                           group='T given: traces'))
            obsT.append(Ob('T:press_n', relT['press_n'][0, 0, 0], Str / 3, ST.pre, group='T given: traces'))
            tr4 = sum(gi4[a, b] * T0[a, b] for a in range(4) for b in range(4))
            obsT.append(Ob('T:Ttrace(trace4 branch)', relT['Ttrace'][0, 0, 0], tr4, ST.pre,
                           group='T given: Ttrace == g^{mn} T_mn', get=lambda r: r['Ttrace']))
            obsT.append(Ob('T:3 press_n - rho_n == Ttrace', 3 * relT['press_n'][0, 0, 0] - relT['rho_n'][0, 0, 0],
                           tr4, ST.pre, group='alternative derivations of the trace agree'))
            # cosmological constant: quantities that combine matter terms with Lambda, cut at free kinematic scalars
            relL = ST.run.symbolic_rel()
            Lam = sym('Lambda_c')
            relL.Lambda = Lam

            def cell(nm):
                arr = np.empty((1, 1, 1), dtype=object)
                arr[0, 0, 0] = sym(nm)
                return arr
            for k_ in ('shear2', 'theta', 'rho'):
                relL.data[k_] = cell('cut_' + k_)
            sh_, th_, rh_ = (relL.data[k_][0, 0, 0] for k_ in ('shear2', 'theta', 'rho'))
            obsT.append(Ob('Lambda:s_RicciS_u', relL['s_RicciS_u'][0, 0, 0],
                           2 * (sh_ - th_ * th_ / 3 + Lam + relL.kappa * rh_), ST.pre,
                           group='Lambda != 0: s_RicciS_u == 2 sigma^2 - (2/3) theta^2 + 2 Lambda + 2 kappa rho (cut at shear2, theta, rho)'))
        blocks.append(dict(name='Tgiven', setup=ST, run=ST.run, obs=obsT, ctx=cT, samplers=[ST.sampler()]))

        # Ttrace branch taken when Tdown4 is NOT yet in data (fresh instance, fluid inputs)
        def ttrace_block(S3, name):
            c3 = Ctx(pre=S3.pre, fork=False)
            with use_ctx(c3):
                rel3 = S3.run.symbolic_rel()
                rho3 = S3.rho0 * (1 + S3.eps)
                ob = Ob(f'Ttrace(fresh instance){name}', rel3['Ttrace'][0, 0, 0], -rho3 + 3 * S3.p, S3.pre,
                        group='Ttrace == -rho + 3p', get=lambda r: r['Ttrace'])
            blocks.append(dict(name='Ttrace-fresh' + name, setup=S3, run=S3.run, obs=[ob], ctx=c3,
                               samplers=[S3.sampler(), sampler_moving(S3)]))
        try:
            ttrace_block(FluidSetup('fluid'), '')
        except Inconclusive:
            ttrace_block(FluidSetup('fluid', rho0_case='gt0'), '[rho0>0]')
            ttrace_block(FluidSetup('fluid', rho0_case='zero'), '[rho0=0]')
    return blocks


def main(report, tier, seed, workers, calibrate=False):
    report.bounds = dict(grid='1x1x1 (pointwise algebra; no derivative on these paths)',
                         input_patterns=['rho0, eps, press, W, v^i', 'Tdown4 given directly'],
                         outside=['float round-off'])
    report.assumptions += ['lapse > 0, metric positive definite, W > 0 and W^2 (1 - v_i v^i) = 1, rho0 >= 0',
                           'enthalpy / conserved_S obligations additionally assume rho0 > 0',
                           'floats are reals']
    report.stubs += ['aurel.*.np -> symx.npproxy']
    with FuncTrace() as ft:
        blocks = build(tier)
    report.functions |= ft.seen
    report.extra['source_sha1'] = source_digest(FILES)
    to = 60 if tier == 'quick' else 400
    for blk in blocks:
        S = blk['setup']
        pre = blk.get('pre') or S.pre
        vacuity(report, pre, name=f"{blk['name']}:pre")
        from fractions import Fraction as F
        envs = [{f'g{i}{j}': F(v) for (i, j), v in gr.DESIGNED_GAMMA[w].items()} for w in (0, 1)]
        rungs = [dict(name='full', envs=[None], timeout=to),
                 dict(name='slices:metric-value-fixed', envs=envs, timeout=5 * to)]
        # two samplers: fluid at rest (exact rational point) and a moving fluid with W = 5/4
        samplers = blk['samplers']

        def sampler(rng, samplers=samplers, state=[0]):
            state[0] += 1
            return samplers[state[0] % len(samplers)](rng)
        process_jet(report, blk['run'], blk['obs'], rungs, sampler=sampler, workers=workers, seed=seed,
                    verbose=bool(calibrate))
        report.extra.setdefault('branch_decisions', {})[blk['name']] = blk['ctx'].decision_queries
    pick = [ob for ob in blocks[0]['obs'] if ob.name == 'u^mu u_mu'][0]
    witness_sat(report, pick, 'u.u == 0 (wrong)')


def replay_payload(payload):
    from .common import replay_blocks
    return replay_blocks(build, payload)
