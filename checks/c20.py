r"""C20 - spin-weighted harmonics and sphere extraction (the part that is in reach).

(a) maths.sYlm runs on symbolic angles: cos(theta/2), sin(theta/2) are atoms c, s with c^2+s^2 = 1,
    exp(i m phi) a unit complex atom pair, np.pi an atom.  For every spin weight s, order m and pair
    (l, l') offered up to the stated lmax the solver decides *orthonormality*: the returned expressions are
    polynomials in (c, s); the integral over the sphere is the linear functional
    int c^a s^b dOmega = 2*pi * 2*B((a+2)/2, (b+2)/2) applied monomial-wise (exact rationals, times pi for
    odd exponents), and  <sYlm, sYl'm> = delta_ll'  is an SMT identity in the remaining atoms (pi, the
    square-root normalisation atoms).
(a2) at spin 0 the result equals the ordinary harmonics up to one global phase convention (either
    Condon-Shortley or (-1)^m times it - the documented Goldberg convention), the same for all (l, m).
(b) maths.factorial == n!; (c) sYlm_reconstruct is the stated linear combination; (d) numerical.interpolate
    raises exactly when a target lies outside the grid (guard executed on symbolic extrema, all paths).
Not claimed (stated): the quadrature in sYlm_coefficients / Psi4_lm, scipy's interpolator, convergence."""
import itertools
import math
from fractions import Fraction as F

import numpy as np

from symx import term as tm, solver
from symx.sym import Ctx, use_ctx, sym, SymReal, SymComplex, explore, Inconclusive
from symx.npproxy import patched
from symx.harness import Ob, FuncTrace, source_digest, discharge

PID = 'C20'
FILES = ['src/aurel/maths.py', 'src/aurel/numerical.py']


def angle_arrays():
    th = np.empty((1,), dtype=object)
    ph = np.empty((1,), dtype=object)
    th[0], ph[0] = sym('theta'), sym('phi')
    return th, ph


def install_complex_exp():
    """exp of a purely imaginary symbolic number: unit complex atom pair (cos, sin of the same argument)"""
    saved = getattr(SymComplex, 'exp', None)

    def cexp(self):
        re = self.re.t if isinstance(self.re, SymReal) else tm.const(self.re)
        im = self.im.t if isinstance(self.im, SymReal) else tm.const(self.im)
        if not (re.op == 'c' and re.val == 0):
            raise TypeError('exp of a complex number with non-zero real part')
        if im.op == 'c' and im.val == 0:
            return SymComplex(SymReal(tm.ONE), SymReal(tm.ZERO))
        return SymComplex(SymReal(tm.fn('cos', [im])), SymReal(tm.fn('sin', [im])))
    SymComplex.exp = cexp
    return saved


def beta_half(p2, q2):
    """B(p2/2, q2/2) as (rational, power of pi in {0, 1})"""
    def gamma_half(n2):          # Gamma(n2/2) = rational * sqrt(pi)^k
        if n2 % 2 == 0:
            return F(math.factorial(n2 // 2 - 1)), 0
        k = (n2 - 1) // 2        # Gamma(k + 1/2) = (2k)!/(4^k k!) sqrt(pi)
        return F(math.factorial(2 * k), 4 ** k * math.factorial(k)), 1
    (a, ka), (b, kb), (c, kc) = gamma_half(p2), gamma_half(q2), gamma_half(p2 + q2)
    k = ka + kb - kc            # power of sqrt(pi)
    assert k in (0, 2), k
    return a * b / c, k // 2


def sphere_integral(re_term, c_atom, s_atom, pi_t):
    """integral over the sphere of a polynomial in (c, s) that does not depend on phi:
       int_0^{2pi} dphi int_0^pi P sin(theta) dtheta, theta = 2u, sin(theta) = 2 s c:
       = 2 pi * 4 * int_0^{pi/2} P c s du = 2 pi * 2 * sum coef * B((a+2)/2, (b+2)/2)."""
    tm._LEAF.clear()
    poly = tm._poly(re_term, {})
    total = tm.ZERO
    for mono, coef in poly.items():
        a = b = 0
        rest = tm.const(coef)
        for lid, e in mono:
            leaf = tm._LEAF[lid]
            if leaf is c_atom:
                a = e
            elif leaf is s_atom:
                b = e
            else:
                rest = tm.mul(rest, tm.ipow(leaf, e))
        r, kpi = beta_half(a + 2, b + 2)
        term = tm.scale(rest, 2 * r)
        if kpi:
            term = tm.mul(term, pi_t)
        total = tm.add(total, term)
    return tm.mul(tm.scale(pi_t, 2), total)


def harmonics_obligations(report, tier, lmax):
    from aurel import maths
    pi = sym('pi')
    pre = [tm.lt(tm.const(3), pi.t), tm.lt(pi.t, tm.const(4))]
    obs = []
    values = {}
    saved = install_complex_exp()
    try:
        with patched(modules=('aurel.maths',), atoms=dict(pi=pi)):
            with use_ctx(Ctx(pre=pre, fork=False)):
                th, ph = angle_arrays()
                half = th[0] / 2
                c_atom, s_atom = tm.fn('cos', [half.t]), tm.fn('sin', [half.t])
                for s in range(-2, 3):
                    for l in range(abs(s), lmax + 1):
                        for m in range(-l, l + 1):
                            y = maths.sYlm(s, l, m, th, ph)
                            y = y[0] if isinstance(y, np.ndarray) else y
                            if not isinstance(y, SymComplex):
                                y = SymComplex(y, 0)
                            values[s, l, m] = y
                # orthonormality in l for fixed (s, m)
                for s in range(-2, 3):
                    for m in range(-lmax, lmax + 1):
                        ls = [l for l in range(max(abs(s), abs(m)), lmax + 1)]
                        for l1, l2 in itertools.combinations_with_replacement(ls, 2):
                            y1, y2 = values[s, l1, m], values[s, l2, m]
                            prod = y1 * y2.conjugate()
                            # the phi dependence cancels in the real part through cos^2 + sin^2 = 1 of the m*phi atoms:
                            # replace (cos^2 + sin^2)(m phi) by 1 using the shared modulus structure: y = f(theta) * e^{i m phi}
                            f1 = strip_phase(y1, m)
                            f2 = strip_phase(y2, m)
                            if f1 is None or f2 is None:
                                report.harness_errors.append(f"sYlm({s},{l1},{m}) is not of the form f(theta) e^(i m phi)")
                                continue
                            integrand = tm.mul(f1, f2)
                            I = sphere_integral(integrand, c_atom, s_atom, pi.t)
                            obs.append(Ob(f"<{s}Y{l1},{m} | {s}Y{l2},{m}> == {1 if l1 == l2 else 0}", I, tm.const(1 if l1 == l2 else 0),
                                          pre, group=f'orthonormality over the sphere, s = {s}'))
    finally:
        if saved is None:
            del SymComplex.exp
        else:
            SymComplex.exp = saved
    return obs, values, pre, (c_atom, s_atom, pi)


def strip_phase(y, m):
    """y = f * (cos(m phi) + i sin(m phi)) with f real and phi-independent -> f (term), else None"""
    re = y.re.t if isinstance(y.re, SymReal) else tm.const(y.re)
    im = y.im.t if isinstance(y.im, SymReal) else tm.const(y.im)
    if m == 0:
        return re if (im.op == 'c' and im.val == 0) else None
    arg = tm.scale(tm.var('phi'), m)
    cs, sn = tm.fn('cos', [arg]), tm.fn('sin', [arg])
    tm._LEAF.clear()
    try:
        pr, pi_ = tm._poly(re, {}), tm._poly(im, {})
    except tm._TooBig:
        return None

    def divide(poly, atom):
        out = {}
        for mono, coef in poly.items():
            d = dict(mono)
            if d.get(atom.id, 0) != 1:
                return None
            del d[atom.id]
            out[tuple(sorted(d.items()))] = coef
        return out
    fr, fi = divide(pr, cs), divide(pi_, sn)
    if fr is None or fi is None or fr != fi:
        return None
    # rebuild the term of f
    total = tm.ZERO
    for mono, coef in fr.items():
        t = tm.const(coef)
        for lid, e in mono:
            t = tm.mul(t, tm.ipow(tm._LEAF[lid], e))
        total = tm.add(total, t)
    return total


def spin0_obligations(values, pre, atoms, lmax):
    """0Ylm vs the ordinary harmonics (Condon-Shortley closed forms) up to a global convention"""
    c_atom, s_atom, pi = atoms
    c, s = SymReal(c_atom), SymReal(s_atom)
    ct, st = c * c - s * s, 2 * s * c             # cos(theta), sin(theta)

    def N(num, den):
        return SymReal(tm.sqrt((F(num) / (den * pi)).t))
    cs = {
        (0, 0): N(1, 4), (1, 0): N(3, 4) * ct, (1, 1): -N(3, 8) * st, (1, -1): N(3, 8) * st,
        (2, 0): N(5, 16) * (3 * ct * ct - 1), (2, 1): -N(15, 8) * st * ct, (2, -1): N(15, 8) * st * ct,
        (2, 2): N(15, 32) * st * st, (2, -2): N(15, 32) * st * st,
    }
    out = {'Condon-Shortley': [], '(-1)^m Condon-Shortley': []}
    for (l, m), f in cs.items():
        if l > lmax:
            continue
        got = strip_phase(values[0, l, m], m)
        if got is None:
            continue
        for conv, sign in (('Condon-Shortley', 1), ('(-1)^m Condon-Shortley', (-1) ** m)):
            out[conv].append(Ob(f"0Y{l},{m} == {conv}", got, (sign * f).t, pre, group=f'spin 0 reduces to ordinary harmonics ({conv})'))
    return out


def small_parts(report):
    from aurel import maths
    bad = [n for n in range(0, 13) if int(maths.factorial(n)) != math.factorial(n)]
    # beyond 2^53 the float result is n! to round-off (n <= 64 covers l + |m| for every l <= 32)
    bad += [n for n in range(13, 65) if not abs(F(float(maths.factorial(n))) / math.factorial(n) - 1) < F(1, 10 ** 12)]
    report.record('maths.factorial(n) == n! for n <= 12, and to 1e-12 relative for n <= 64', 'holds' if not bad else 'sat', group='helpers (concrete)', kind='concrete', trivial=True)
    if bad:
        report.violation('factorial', f'factorial wrong for {bad}', report.write_replay('factorial', dict(n=bad)))


def reconstruct_obligations(values_fn, pre):
    """sYlm_reconstruct is the linear combination sum a_lm sYlm (free complex coefficients)"""
    from aurel import maths
    obs = []
    pi = sym('pi')
    saved = install_complex_exp()
    try:
        with patched(modules=('aurel.maths',), atoms=dict(pi=pi)):
            with use_ctx(Ctx(pre=pre, fork=False)):
                th, ph = angle_arrays()
                for s, lmax in ((-2, 2), (0, 1)):
                    alm = {(l, m): SymComplex(sym(f'ar{l}_{m + l}'), sym(f'ai{l}_{m + l}')) for l in range(lmax + 1) for m in range(-l, l + 1)}
                    try:
                        got = maths.sYlm_reconstruct(s, lmax, alm, th, ph)[0]
                    except Exception as e:  # noqa
                        obs.append(('error', f'sYlm_reconstruct({s},{lmax}) raised {e!r}'))
                        continue
                    want = SymComplex(0, 0)
                    for (l, m), a in alm.items():
                        y = maths.sYlm(s, l, m, th, ph)
                        y = y[0] if isinstance(y, np.ndarray) else y
                        y = y if isinstance(y, SymComplex) else SymComplex(y, 0)
                        want = want + a * y
                    got = got if isinstance(got, SymComplex) else SymComplex(got, 0)
                    for part, g, w in (('re', got.re, want.re), ('im', got.im, want.im)):
                        gt = g.t if isinstance(g, SymReal) else tm.const(g)
                        wt = w.t if isinstance(w, SymReal) else tm.const(w)
                        obs.append(Ob(f'sYlm_reconstruct(s={s}, lmax={lmax}).{part}', gt, wt, pre, group='sYlm_reconstruct is sum a_lm sYlm'))
    finally:
        if saved is None:
            del SymComplex.exp
        else:
            SymComplex.exp = saved
    return obs


def interpolate_guard(report, ntargets=2):
    """numerical.interpolate raises iff some target coordinate lies outside the grid range of its dimension"""
    from aurel import numerical

    class FakeRGI:
        def __init__(self, *a, **k):
            pass

        def __call__(self, pts):
            return np.zeros(len(pts))

    class FakeScipy:
        class interpolate:
            RegularGridInterpolator = FakeRGI
    saved = numerical.scipy
    numerical.scipy = FakeScipy
    paths, q, bad = 0, 0, []
    try:
        def run(c):
            g = [np.array([sym(f'g{d}a'), sym(f'g{d}b')], dtype=object) for d in range(3)]
            t = [np.array([sym(f't{d}{chr(97 + k)}') for k in range(ntargets)], dtype=object) for d in range(3)]
            for d in range(3):
                c.pre.append(tm.lt(g[d][0].t, g[d][1].t))          # grid coordinates strictly ascending
            val = np.zeros((2, 2, 2))
            try:
                numerical.interpolate(val, tuple(g), tuple(t))
                raised = False
            except ValueError:
                raised = True
            # specification, decided under the path condition
            outside = []
            for d in range(3):
                for tv in t[d]:
                    lo_out = tm.band([tm.lt(tv.t, g[d][0].t), tm.lt(tv.t, g[d][1].t)])
                    hi_out = tm.band([tm.lt(g[d][0].t, tv.t), tm.lt(g[d][1].t, tv.t)])
                    outside.append(tm.bor([lo_out, hi_out]))
            spec = tm.bor(outside)
            ok = c.valid(spec) if raised else c.valid(tm.bnot(spec))
            return raised, ok
        for c, (raised, ok) in explore(run, pre=[], backend='inproc', decide_timeout=5, max_paths=5000):
            paths += 1
            q += c.decision_queries
            if ok is not True:
                v, model = c.model()
                bad.append((raised, {k: str(x) for k, x in model.items() if x is not None}))
    except Inconclusive as e:
        report.inconc('interpolate guard', str(e))
    finally:
        numerical.scipy = saved
    report.record('numerical.interpolate raises exactly when a target is outside the grid (2 grid points and 2 targets per dimension, all orderings)',
                  'unsat' if not bad else 'sat', backend='z3py-inproc', sha=f'{paths}p{q}q', group='interpolation bounds guard (symbolic extrema)')
    report.extra['interpolate_guard_paths'] = paths
    for raised, model in bad[:1]:
        g = [np.array([float(F(model.get(f'g{d}a', '0'))), float(F(model.get(f'g{d}b', '1')))]) for d in range(3)]
        t = [np.array([float(F(model.get(f't{d}{chr(97 + k)}', '0'))) for k in range(ntargets)]) for d in range(3)]
        gs = [np.sort(x) for x in g]
        outside = any((tt < gg.min()).any() or (tt > gg.max()).any() for gg, tt in zip(gs, t))
        try:
            numerical.interpolate(np.zeros((2, 2, 2)), tuple(gs), tuple(t))
            r2 = False
        except ValueError as ex:
            r2 = 'outside grid bounds' in str(ex)
        if r2 != outside:
            report.violation('interpolate guard', f"interpolate {'raised' if r2 else 'did not raise'} for targets {t} on grid {gs}",
                             report.write_replay('interpolate_guard', dict(model=model)))
        else:
            report.harness_errors.append(f'interpolate guard: symbolic path ({raised}) not reproduced: {model}')


def interpolate_plumbing(report):
    """numerical.interpolate pairs the three target arrays position by position whatever their memory layout and returns
    the interpolator's values in the shape of the targets: with the interpolator stubbed by a *linear symbolic field*
    u(x,y,z) = x + 10 y + 100 z evaluated on the rows it is handed, out[idx] must be u(x[idx], y[idx], z[idx]) for
    symbolic target coordinates stored C-ordered, as a transposed view, and Fortran-ordered."""
    from aurel import numerical

    class FakeRGI:
        def __init__(self, *a, **k):
            pass

        def __call__(self, pts):
            pts = np.asarray(pts, dtype=object)
            return np.array([pts[j, 0] + pts[j, 1] * 10 + pts[j, 2] * 100 for j in range(pts.shape[0])], dtype=object)

    class FakeScipy:
        class interpolate:
            RegularGridInterpolator = FakeRGI
    saved = numerical.scipy
    numerical.scipy = FakeScipy
    layouts = {'C': lambda a: a, 'transposed view': lambda a: a.T.copy().T if False else np.ascontiguousarray(a.T).T,
               'Fortran': lambda a: np.asfortranarray(a)}
    bad, n = [], 0
    try:
        for combo in itertools.product(layouts, repeat=3):
            pre = []
            g = [np.array([sym(f'g{d}a'), sym(f'g{d}b')], dtype=object) for d in range(3)]
            t = []
            for d in range(3):
                base = np.empty((2, 3), dtype=object)
                prev = g[d][0]
                for k, idx in enumerate(np.ndindex(2, 3)):
                    base[idx] = sym(f't{d}_{k}')
                    pre.append(tm.lt(prev.t, base[idx].t))        # a fixed order: min / max are decided, not forked
                    prev = base[idx]
                pre.append(tm.lt(prev.t, g[d][1].t))
                t.append(layouts[combo[d]](base))
            with use_ctx(Ctx(pre=pre, fork=False)) as c:
                out = numerical.interpolate(np.zeros((2, 2, 2)), tuple(g), tuple(t))
                n += 1
                ok = np.shape(out) == (2, 3)
                if ok:
                    for idx in np.ndindex(2, 3):
                        want = t[0][idx] + t[1][idx] * 10 + t[2][idx] * 100
                        if c.valid(tm.eq(out[idx].t, want.t)) is not True:
                            ok = False
                if not ok:
                    bad.append(combo)
    except Inconclusive as e:
        report.inconc('interpolate plumbing', str(e))
    finally:
        numerical.scipy = saved
    report.record(f'numerical.interpolate pairs targets by position for every memory layout ({n} layout combinations, symbolic targets)',
                  'unsat' if not bad else 'sat', backend='z3py-inproc', sha=f'{n}layouts', group='interpolation plumbing (symbolic targets, stub field)')
    if bad:
        # float replay on the real scipy interpolator with a trilinear field
        lay = {'C': lambda a: a, 'transposed view': lambda a: np.ascontiguousarray(a.T).T, 'Fortran': np.asfortranarray}
        gx = np.linspace(0.0, 1.0, 4)
        X, Y, Z = np.meshgrid(gx, gx, gx, indexing='ij')
        val = 1 + 2 * X + 3 * Y + 5 * Z
        rng = np.random.default_rng(5)
        tx, ty, tz = (rng.uniform(0.1, 0.9, size=(2, 3)) for _ in range(3))
        for combo in bad:
            got = numerical.interpolate(val, (gx, gx, gx), (lay[combo[0]](tx), lay[combo[1]](ty), lay[combo[2]](tz)))
            dev = float(np.max(np.abs(np.asarray(got) - (1 + 2 * tx + 3 * ty + 5 * tz)))) if np.shape(got) == (2, 3) else float('inf')
            if dev > 1e-9:
                report.violation('interpolate plumbing', f'interpolate with target layouts {combo}: a trilinear field is returned with error {dev:.3g}',
                                 report.write_replay('interpolate_plumbing', dict(layouts=list(combo), dev=dev)))
                break
        else:
            report.harness_errors.append(f'interpolate plumbing: symbolic mismatch for {bad[:2]} not reproduced on floats')


def psi4lm_geometry(report):
    """Psi4_lm with a symbolic centre and radius (the interpolator and the decomposition are stubbed and record their arguments):
    the grid handed to the interpolator is (x - c0, y - c1, z - c2) axis by axis, the sample points are
    r (sin th cos ph, sin th sin ph, cos th) on the angular grid handed to the decomposition, the weights are sin(th) dth, dph."""
    from aurel.core import AurelCore
    from aurel.finitedifference import FiniteDifference
    from aurel import core as acore
    param = {'xmin': -2.0, 'ymin': -1.5, 'zmin': -1.0, 'dx': 1.0, 'dy': 0.75, 'dz': 0.5, 'Nx': 5, 'Ny': 5, 'Nz': 5}
    fd = FiniteDifference(param, verbose=False)
    rel = AurelCore(fd, verbose=False)
    cs = [sym('cen0'), sym('cen1'), sym('cen2')]
    rad = sym('rad')
    rel.center = list(cs)
    rel.extract_radii = [rad]
    rel.lmax = 2
    rel.data['Weyl_Psi'] = [np.zeros(fd.x.shape, dtype=complex) for _ in range(5)]
    calls = []

    class Num:
        @staticmethod
        def interpolate(values, grid, points, method=None):
            calls.append((grid, points))
            return np.zeros(np.shape(points[0]))

    class Mth:
        def __getattr__(self, nm):
            return getattr(real_maths, nm)

        @staticmethod
        def sYlm_coefficients(s_, lmax_, f_, theta, phi, wth, dphi):
            calls.append(('coef', s_, lmax_, theta, phi, wth, dphi))
            return {}
    real_num, real_maths = acore.numerical, acore.maths
    acore.numerical, acore.maths = Num, Mth()
    probs = []
    try:
        c = Ctx(pre=[tm.lt(tm.ZERO, rad.t)], fork=False)
        with use_ctx(c):
            rel['Psi4_lm']
    except Exception as e:  # noqa
        probs.append(f'Psi4_lm raised {type(e).__name__}: {e}'[:200])
    finally:
        acore.numerical, acore.maths = real_num, real_maths
    obs = []
    if not probs:
        grids = [g for g in calls if len(g) == 2]
        coef = [g for g in calls if g and g[0] == 'coef']
        if len(grids) != 2 or len(coef) != 1:
            probs.append(f'expected 2 interpolations and 1 decomposition per radius, got {len(grids)} / {len(coef)}')
        else:
            _, s_, lmax_, theta, phi, wth, dphi = coef[0]
            if s_ != -2 or lmax_ != 2:
                probs.append(f'decomposition called with spin {s_}, lmax {lmax_}')
            axes = [fd.xarray, fd.yarray, fd.zarray]
            for grid, pts in grids:
                for k in range(3):
                    for j in range(len(axes[k])):
                        obs.append(Ob(f'Psi4_lm: interpolation grid axis {k} node {j} == axis - center[{k}]', grid[k][j], axes[k][j] - cs[k],
                                      c.pre, group='Psi4_lm geometry (symbolic centre and radius)'))
                want = [rad * np.sin(theta) * np.cos(phi), rad * np.sin(theta) * np.sin(phi), rad * np.cos(theta)]
                for k in range(3):
                    for idx in ((0, 0), (1, 2), (theta.shape[0] - 1, theta.shape[1] - 1)):
                        obs.append(Ob(f'Psi4_lm: sphere point component {k} at angular node {idx}', pts[k][idx], want[k][idx], c.pre,
                                      group='Psi4_lm geometry (symbolic centre and radius)', tol=1e-12))
            dth = float(theta[1, 0] - theta[0, 0])
            dph = float(phi[0, 1] - phi[0, 0])
            if not np.allclose(wth, np.sin(theta) * dth) or not np.isclose(float(dphi), dph):
                probs.append('quadrature weights are not sin(theta) dtheta, dphi of the angular grid handed over')
            if not (np.isclose(theta.shape[0] * dth, np.pi) and np.isclose(phi.shape[1] * dph, 2 * np.pi)):
                probs.append('angular cells do not tile [0, pi] x [0, 2 pi]')
    for p_ in probs:
        report.violation('Psi4_lm geometry', p_, report.write_replay('psi4lm_geometry', dict(problem=p_)))
    return obs


def replay_psi4lm_center():
    """float replay: a field linear in z decomposed around two centres that differ in c2 only must change its (l=1) content;
    around centres that differ in c1 only it must not (the field does not depend on y)"""
    from aurel.core import AurelCore
    from aurel.finitedifference import FiniteDifference
    param = {'xmin': -4.0, 'ymin': -4.0, 'zmin': -4.0, 'dx': 0.5, 'dy': 0.5, 'dz': 0.5, 'Nx': 17, 'Ny': 17, 'Nz': 17}
    fd = FiniteDifference(param, verbose=False)

    def run(center):
        rel = AurelCore(fd, verbose=False)
        rel.center = list(center)
        rel.extract_radii = [1.5]
        rel.lmax = 2
        rel.data['Weyl_Psi'] = [np.zeros(fd.x.shape, dtype=complex) for _ in range(4)] + [(fd.z + 0.0) * (1.0 + 0j)]
        out = rel['Psi4_lm'][1.5]
        return np.array([out[k] for k in sorted(out)])
    a, b, c_ = run((0.0, 0.0, 0.0)), run((0.0, 0.5, 0.0)), run((0.0, 0.0, 0.5))
    dy, dz = float(np.max(np.abs(a - b))), float(np.max(np.abs(a - c_)))
    return dict(change_when_center_y_moves=dy, change_when_center_z_moves=dz, reproduces=(dy > 1e-6 or dz < 1e-6))


def main(report, tier, seed, workers, calibrate=False):
    lmax = 3 if tier == 'quick' else 4
    report.bounds = dict(spin_weights=[-2, -1, 0, 1, 2], lmax=lmax, claim='orthonormality in l for equal m (theta integral exact); '
                         'orthogonality for different m is the Fourier orthogonality of exp(i m phi) - textbook, not a solver result',
                         psi4lm='geometry only: grid shift by the centre, sample points, weights and tiling of the angular grid (symbolic centre and radius)',
                         outside=['accuracy of the midpoint quadrature in sYlm_coefficients / Psi4_lm (correct only in the limit)',
                                  "scipy's RegularGridInterpolator (exactness at nodes / on trilinear fields)", 'convergence of the extracted mode',
                                  'l > lmax'])
    report.assumptions += ['cos(theta/2), sin(theta/2) >= 0 atoms with c^2+s^2 = 1; exp(i m phi) a unit complex atom pair; np.pi an atom in (3, 4)',
                           'integration over the sphere is the linear functional int c^a s^b dOmega = 4 pi B((a+2)/2, (b+2)/2) applied to the '
                           'polynomial the code returns (Beta values computed exactly)']
    report.stubs += ['aurel.maths.np -> symx.npproxy with np.pi an atom', 'numerical.scipy.interpolate.RegularGridInterpolator -> stub (guard only)']
    with FuncTrace() as ft:
        obs, values, pre, atoms = harmonics_obligations(report, tier, lmax)
        spin0 = spin0_obligations(values, pre, atoms, lmax)
        rec = reconstruct_obligations(values, pre)
        small_parts(report)
        interpolate_guard(report, ntargets=1 if tier == 'quick' else 2)
        interpolate_plumbing(report)
        geo = psi4lm_geometry(report)
    report.functions |= ft.seen
    report.extra['source_sha1'] = source_digest(FILES)
    from .common import vacuity
    vacuity(report, pre, 'pi atom')
    errors = [o for o in rec if isinstance(o, tuple)]
    rec = [o for o in rec if not isinstance(o, tuple)]
    for _, msg in errors:
        report.violation('sYlm_reconstruct', msg, report.write_replay('reconstruct', dict(error=msg)))
    discharge(obs + rec + geo, timeout_s=60 if tier == 'quick' else 300, workers=workers)
    geo_bad = [ob for ob in geo if ob.result['verdict'] == 'sat']
    for ob in geo:
        report.record_ob(ob)
        if ob.result['verdict'] == 'unknown':
            report.inconc(ob.name, 'not settled')
    if geo_bad:
        rp = replay_psi4lm_center()
        if rp['reproduces']:
            report.violation('Psi4_lm geometry', f"{geo_bad[0].name} fails for a symbolic centre (model {geo_bad[0].result.get('model')}); float replay with a "
                             f"field linear in z: {rp}", report.write_replay('psi4lm_center', dict(obligation=geo_bad[0].name, replay=rp)))
        else:
            report.harness_errors.append(f'{geo_bad[0].name}: solver model does not reproduce on floats: {rp}')
    for ob in obs + rec:
        report.record_ob(ob)
        r = ob.result
        if r['verdict'] == 'unknown':
            report.inconc(ob.name, 'not settled')
        elif r['verdict'] == 'sat':
            rp = replay_orthonormality(ob.name)
            if rp['reproduces']:
                report.violation(ob.name.split(' ==')[0], f"{ob.name}: numerical quadrature of the real sYlm gives {rp['value']}",
                                 report.write_replay(ob.name, dict(name=ob.name, replay=rp)))
            else:
                report.harness_errors.append(f'{ob.name}: solver says it fails, numerical integration of the real function does not: {rp}')
    # spin 0: one of the two conventions must hold for all (l, m)
    chosen = None
    for conv, ol in spin0.items():
        discharge(ol, timeout_s=60, workers=workers)
        if all(o.result['verdict'] == 'unsat' for o in ol):
            chosen = conv
            for o in ol:
                report.record_ob(o)
            break
    report.extra['spin0_convention'] = chosen
    if chosen is None:
        worst = [o for ol in spin0.values() for o in ol if o.result and o.result['verdict'] != 'unsat']
        if any(o.result['verdict'] == 'unknown' for o in worst):
            report.inconc('spin 0 convention', 'not settled')
        else:
            report.violation('spin 0', 'spin-0 harmonics equal the ordinary harmonics under neither phase convention',
                             report.write_replay('spin0', dict(failed=[o.name for o in worst])))
    # sensitivity witness
    w = Ob('witness', obs[0].impl, tm.add(obs[0].oracle, tm.ONE), pre)
    r = solver.check(w.query(), timeout_s=60, want_model=False)
    report.vacuity.append(dict(name='orthonormality + 1 is refuted', expect='sat', got=r['verdict']))


def replay_orthonormality(name):
    """numerical quadrature of the real maths.sYlm (floats) for the pair named in the obligation"""
    import re
    from aurel import maths
    m_ = re.match(r"<(-?\d)Y(\d+),(-?\d+) \| (-?\d)Y(\d+),(-?\d+)> == (\d)", name)
    if not m_:
        return dict(reproduces=True, value=None, note='no numeric replay for this obligation')
    s, l1, m, _, l2, _, want = map(int, m_.groups())
    n = 400
    th = (np.arange(n) + 0.5) * np.pi / n
    ph = (np.arange(2 * n) + 0.5) * np.pi / n
    T, P = np.meshgrid(th, ph, indexing='ij')
    y1, y2 = maths.sYlm(s, l1, m, T, P), maths.sYlm(s, l2, m, T, P)
    val = np.sum(y1 * np.conj(y2) * np.sin(T)) * (np.pi / n) ** 2
    return dict(value=[float(val.real), float(val.imag)], reproduces=abs(val - want) > 1e-3)


def replay_payload(payload):
    rp = replay_orthonormality(payload.get('name', ''))
    print(rp)
    return 1 if rp['reproduces'] else 0
