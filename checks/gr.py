"""Shared construction for the JetFD (continuum-limit) harnesses C04/C05/C06/C10/C19:
4D jets of lapse, shift and spatial metric -> inputs of the real AurelCore + textbook oracle."""
import random
from fractions import Fraction as F

import numpy as np

from symx import term as tm, oracle
from symx.sym import sym, SymReal
from symx.jet import Jet
from symx.harness import JetRun

# Designed metric values: gamma = L L^T with det = 2^12, so psi = det^(1/12) = 2 is rational.
DESIGNED_GAMMA = [
    {(0, 0): 16, (0, 1): 4, (0, 2): 8, (1, 1): 17, (1, 2): -2, (2, 2): 21},     # L=[[4,0,0],[1,4,0],[2,-1,4]]
    {(0, 0): 4, (0, 1): 2, (0, 2): -2, (1, 1): 17, (1, 2): 7, (2, 2): 69},      # L=[[2,0,0],[1,4,0],[-1,2,8]]
]


def grid(a):
    """(shape) object array / scalar -> (shape,1,1,1) object array."""
    if not isinstance(a, np.ndarray):
        b = np.empty((), dtype=object)
        b[()] = a
        a = b
    out = np.empty(a.shape + (1, 1, 1), dtype=object)
    for idx in np.ndindex(*a.shape):
        out[idx + (0, 0, 0)] = a[idx]
    return out


def ungrid(a):
    return a[..., 0, 0, 0]


class Setup:
    """Free spacetime jets + the code's inputs derived from them."""

    def __init__(self, order=2, vacuum=False, matter='T', Lambda=True, extra_kwargs=None,
                 supply_dt=True, prefix=''):
        self.st = st = oracle.fresh_spacetime(order, prefix)
        self.kappa = sym('kappa')
        self.Lambda = sym('Lambda') if Lambda else 0.0
        self.vacuum = vacuum
        gv = [[st.gamma[i, j].c[()] for j in range(3)] for i in range(3)]
        self.pre = (oracle.spd_preconditions(gv)
                    + [tm.lt(tm.ZERO, st.alpha.c[()]), tm.lt(tm.ZERO, self.kappa.t)])
        inputs = dict(alpha=grid(st.alpha), betaup3=grid(st.beta), gammadown3=grid(st.gamma),
                      Kdown3=grid(st.Kdown))
        if supply_dt:
            inputs['dtalpha'] = grid(st.alpha.diff(0))
            inputs['dtbetaup3'] = grid(np.array([b.diff(0) for b in st.beta], dtype=object))
        if matter == 'T':
            g0 = oracle.truncate(st.g, 0)
            self.T = (st.Einstein + self.Lambda * g0) / self.kappa
            inputs['Tdown4'] = grid(self.T)
        kwargs = dict(Lambda=self.Lambda, vacuum=vacuum)
        kwargs.update(extra_kwargs or {})
        self.run = JetRun(4, inputs, self.pre, kwargs=kwargs, attrs=dict(kappa=self.kappa))

    # ---- slices ----------------------------------------------------------------------
    def jets(self):
        st = self.st
        out = {'alpha': [st.alpha], 'beta': list(st.beta),
               'gamma': [st.gamma[i, j] for i in range(3) for j in range(i, 3)]}
        return out

    def env_metric_values(self, which=0):
        env = {}
        for (i, j), v in DESIGNED_GAMMA[which].items():
            env[self.st.gamma[i, j].c[()].val] = F(v)
        return env

    def env_random(self, rng, groups, values=True, derivs=True, den=8):
        """Random non-zero rationals k/den for the chosen coefficient strata of jet groups."""
        env = {}
        J = self.jets()
        for g in groups:
            for j in J[g]:
                for k, t in j.c.items():
                    if (not k and values) or (k and derivs):
                        env[t.val] = F(rng.choice([x for x in range(-den, den + 1) if x]), den)
        return env

    def slices(self, seed=20261002):
        """Complementary slices used when the full-generality query is not settled."""
        rng = random.Random(seed)
        s = []
        # A: metric value at the point fixed (two designed points); everything else free
        s.append(('metric-value-fixed-0', self.env_metric_values(0)))
        s.append(('metric-value-fixed-1', self.env_metric_values(1)))
        # B: all derivatives and the gauge fixed to generic rationals; metric values free
        envB = self.env_random(rng, ['gamma'], values=False, derivs=True)
        envB.update(self.env_random(rng, ['alpha', 'beta']))
        envB[self.st.alpha.c[()].val] = F(3, 2)
        s.append(('metric-values-free', envB))
        # C: every metric jet fixed (designed value, generic derivatives); lapse and shift free
        for w in (0, 1):
            e = self.env_random(rng, ['gamma'], values=False, derivs=True)
            e.update(self.env_metric_values(w))
            s.append((f'metric-jets-fixed-{w}', e))
        # D: lapse and shift jets fixed, metric value fixed, metric derivatives free
        e = self.env_random(rng, ['alpha', 'beta'])
        e[self.st.alpha.c[()].val] = F(5, 4)
        e.update(self.env_metric_values(0))
        s.append(('gauge-fixed-metric-derivs-free', e))
        return s

    def sampler(self):
        """Random admissible rational points for the counterexample prescreen."""
        def f(rng):
            env = self.env_random(rng, ['alpha', 'beta', 'gamma'])
            env.update(self.env_metric_values(rng.randrange(2)))
            env[self.st.alpha.c[()].val] = F(rng.randint(4, 16), 8)
            env['kappa'] = F(rng.randint(8, 40), 8)
            env['Lambda'] = F(rng.randint(-8, 8), 8)
            return env
        return f
